package server

import (
	"net"
	"time"

	bnet "github.com/bio-routing/bio-rd/net"
	"github.com/bio-routing/bio-rd/protocols/bgp/packet"
	"github.com/bio-routing/bio-rd/routingtable/filter"
	"github.com/bio-routing/bio-rd/routingtable/locRIB"
	"github.com/bio-routing/bio-rd/routingtable/vrf"
)

// C24 — connection collisions leave at most one connection that can reach / stay in Established; the survivor is
// chosen by BGP identifier (AS number on a tie), the other is closed with a Cease NOTIFICATION.

type c24Conn struct {
	net.Conn
	notifs              int
	notifCode, notifSub uint8
	keepalives          int
	closed              bool
	never               chan struct{}
}

// Read blocks: the harness hands complete messages to the FSM's receive channel itself
func (c *c24Conn) Read(b []byte) (int, error) {
	<-c.never
	return 0, net.ErrClosed
}

func (c *c24Conn) Write(b []byte) (int, error) {
	if len(b) >= 21 && b[18] == packet.NotificationMsg {
		c.notifs++
		c.notifCode, c.notifSub = b[19], b[20]
	}
	if len(b) >= 19 && b[18] == packet.KeepaliveMsg {
		c.keepalives++
	}
	return len(b), nil
}
func (c *c24Conn) Close() error { c.closed = true; return nil }

func c24NewFSM(p *peer) (*FSM, *c24Conn) {
	fsm := newFSM(p)
	cc := &c24Conn{never: make(chan struct{})}
	fsm.con = cc
	fsm.connectRetryTimer = time.NewTimer(time.Minute)
	fsm.holdTime = 90 * time.Second
	fsm.lastUpdateOrKeepalive = time.Now()
	p.fsms = append(p.fsms, fsm)
	return fsm, cc
}

// the state of a connection as the property sees it: 0 gone (Idle / Cease / Active / Connect), 1 OpenSent,
// 2 OpenConfirm, 3 Established
func c24Rank(s state) int {
	switch s.(type) {
	case *openSentState, openSentState:
		return 1
	case *openConfirmState, openConfirmState:
		return 2
	case *establishedState, establishedState:
		return 3
	}
	return 0
}

func VC24_Collision() {
	localID, remoteID := ndU32(), ndU32()
	vAssume(remoteID != 0 && localID != 0)
	localAS, peerAS := uint32(ndU16()), uint32(ndU16())
	vAssume(localAS != 0 && peerAS != 0)
	if vParam("ibgp") == 1 {
		peerAS = localAS
		vAssume(localID != remoteID) // an internal peer with our identifier is rejected before collision detection (C22)
	} else {
		vAssume(localAS != peerAS)
	}
	p := &peer{
		addr: bnet.IPv4FromOctets(169, 254, 100, 100).Ptr(), localAddr: bnet.IPv4FromOctets(169, 254, 100, 1).Ptr(),
		localASN: localAS, peerASN: peerAS, routerID: localID, holdTime: 90 * time.Second,
		ipv4: &peerAddressFamily{rib: locRIB.New("inet.0"), importFilterChain: filter.NewAcceptAllFilterChain(), exportFilterChain: filter.NewAcceptAllFilterChain()},
		vrf:  vrf.NewUntrackedVRF("master", 0), adjRIBInFactory: adjRIBInFactory{},
	}
	// connection A: the one that exists already
	a, ca := c24NewFSM(p)
	a.neighborID = remoteID
	switch vParam("a") {
	case 1:
		a.state = newOpenSentState(a)
	case 2:
		a.state = newOpenConfirmState(a)
	case 3:
		s := newEstablishedState(a)
		a.state = s
		s.init()
	default:
		a.state = newIdleState(a)
	}
	rankA0 := c24Rank(a.state)
	// A's own goroutine: runs its state until it leaves it
	var nextA state
	aDone := false
	if rankA0 >= 2 { // Idle / OpenSent connections are not involved (nothing is sent to them)
		go c24RunA(a, &nextA, &aDone)
	}
	// connection B: in OpenSent, the peer's OPEN arrives
	b, cb := c24NewFSM(p)
	sb := newOpenSentState(b)
	b.state = sb
	open := &packet.BGPOpen{Version: 4, ASN: uint16(peerAS), HoldTime: 90, BGPIdentifier: remoteID}
	nextB, _ := sb.openMsgReceived(open)
	b.state = nextB
	vSettle()
	vReach("collision")
	rankA, rankB := c24Rank(a.state), c24Rank(nextB)
	if !aDone {
		rankA = rankA0
	}
	// at most one of the two connections is (on its way to) Established
	vAssert(!(rankA >= 2 && rankB >= 2), "C24.at.most.one.survivor")
	vAssert(rankA >= 2 || rankB >= 2 || rankA0 < 2, "C24.one.survives")
	localLoses := localID < remoteID || (localID == remoteID && localAS < peerAS)
	switch rankA0 {
	case 3:
		vAssert(rankA == 3, "C24.established.kept")
		vAssert(rankB == 0, "C24.new.connection.dropped")
		vAssert(cb.notifs == 1 && cb.notifCode == packet.Cease && cb.closed, "C24.dropped.with.cease")
		vAssert(ca.notifs == 0 && !ca.closed, "C24.survivor.untouched")
	case 2:
		if localLoses {
			// the connection already in OpenConfirm is closed, the one the OPEN arrived on goes on
			vAssert(rankA == 0, "C24.openconfirm.closed")
			vAssert(ca.notifs == 1 && ca.notifCode == packet.Cease && ca.closed, "C24.dropped.with.cease")
			vAssert(rankB == 2, "C24.new.connection.kept")
			vAssert(cb.notifs == 0 && !cb.closed && cb.keepalives == 1, "C24.survivor.untouched")
		} else {
			vAssert(rankA == 2, "C24.openconfirm.kept")
			vAssert(rankB == 0, "C24.new.connection.dropped")
			vAssert(cb.notifs == 1 && cb.notifCode == packet.Cease && cb.closed, "C24.dropped.with.cease")
			vAssert(ca.notifs == 0 && !ca.closed, "C24.survivor.untouched")
		}
	default:
		// no collision: B proceeds
		vAssert(rankB == 2, "C24.no.collision.proceeds")
		vAssert(cb.notifs == 0 && !cb.closed, "C24.survivor.untouched")
	}
}

func c24RunA(a *FSM, nextA *state, aDone *bool) {
	n, _ := a.state.run()
	*nextA = n
	a.stateMu.Lock()
	a.state = n
	a.stateMu.Unlock()
	*aDone = true
}

func c24OpenBytes(as uint16, id uint32) []byte {
	m := make([]byte, 64)
	for i := 0; i < 16; i++ {
		m[i] = 0xff
	}
	m[16], m[17], m[18], m[19] = 0, 29, packet.OpenMsg, 4
	m[20], m[21], m[22], m[23] = uint8(as>>8), uint8(as), 0, 90
	m[24], m[25], m[26], m[27], m[28] = uint8(id>>24), uint8(id>>16), uint8(id>>8), uint8(id), 0
	return m
}

func c24KeepaliveBytes() []byte {
	m := make([]byte, 64)
	for i := 0; i < 16; i++ {
		m[i] = 0xff
	}
	m[16], m[17], m[18] = 0, 19, packet.KeepaliveMsg
	return m
}

// Both connections are in OpenSent and the peer's OPEN arrives on both: the two FSM goroutines (real FSM.run loops)
// are interleaved at every lock acquisition; then a KEEPALIVE is delivered to whichever connection still listens.
func VC24_Race() {
	localID, remoteID := uint32(vParam("local")), uint32(vParam("remote"))
	p := &peer{
		addr: bnet.IPv4FromOctets(169, 254, 100, 100).Ptr(), localAddr: bnet.IPv4FromOctets(169, 254, 100, 1).Ptr(),
		localASN: 65000, peerASN: 65001, routerID: localID, holdTime: 90 * time.Second,
		ipv4: &peerAddressFamily{rib: locRIB.New("inet.0"), importFilterChain: filter.NewAcceptAllFilterChain(), exportFilterChain: filter.NewAcceptAllFilterChain()},
		vrf:  vrf.NewUntrackedVRF("master", 0), adjRIBInFactory: adjRIBInFactory{},
	}
	a, ca := c24NewFSM(p)
	b, cb := c24NewFSM(p)
	a.state, b.state = newOpenSentState(a), newOpenSentState(b)
	go a.run()
	go b.run()
	vSettle()
	open := c24OpenBytes(65001, remoteID)
	// both FSMs are parked in their select: the two sends hand the OPEN over without blocking, then both run
	a.msgRecvCh <- open
	b.msgRecvCh <- open
	vSettle()
	vReach("opens")
	for round := 0; round < 2; round++ {
		select {
		case a.msgRecvCh <- c24KeepaliveBytes():
		default:
		}
		select {
		case b.msgRecvCh <- c24KeepaliveBytes():
		default:
		}
		vSettle()
	}
	vReach("race")
	a.stateMu.RLock()
	ra := c24Rank(a.state)
	a.stateMu.RUnlock()
	b.stateMu.RLock()
	rb := c24Rank(b.state)
	b.stateMu.RUnlock()
	// known finding C24-1: neither handler saw the other connection in OpenConfirm (both sent their KEEPALIVE, no
	// NOTIFICATION anywhere) because FSM.run publishes the new state only after the handler has returned
	vKnown("C24-1", ca.keepalives >= 1 && cb.keepalives >= 1 && ca.notifs == 0 && cb.notifs == 0)
	vAssert(!(ra == 3 && rb == 3), "C24.race.both.established")
	vAssert(ra == 3 || rb == 3, "C24.race.one.established")
}

func VC24_Twin() {
	p := &peer{localASN: 1, peerASN: 2}
	_ = p
	vAssert(false, "C24.twin")
}
