package server

import (
	"time"

	bnet "github.com/bio-routing/bio-rd/net"
	"github.com/bio-routing/bio-rd/net/ethernet"
	"github.com/bio-routing/bio-rd/protocols/device"
	"github.com/bio-routing/bio-rd/protocols/isis/types"
)

// C33 — IS-IS survives any sequence of interface state changes.
// The real netIfa.DeviceUpdate / _start / _stop, the real p2pHelloSender and receiver goroutines (run as coroutines
// by the executor on a virtual clock), a counting ethernet mock.

type c33Dev struct {
	tick  bool
	state uint8
	addrs []*bnet.Prefix
}

func (m *c33Dev) GetIndex() uint64         { return 7 }
func (m *c33Dev) GetOperState() uint8 {
	if m.tick {
		// DeviceUpdate reads the state while it holds the interface lock: let a hello become due right there
		vAdvance(int64(2 * time.Second))
	}
	return m.state
}
func (m *c33Dev) GetAddrs() []*bnet.Prefix { return m.addrs }

type c33Upd struct{}

func (m *c33Upd) Subscribe(c device.Client, d string)   {}
func (m *c33Upd) Unsubscribe(c device.Client, d string) {}
func (m *c33Upd) Start() error                          { return nil }

type c33Eth struct {
	closed chan struct{}
	sent   *int
}

func (e *c33Eth) RecvPacket() ([]byte, ethernet.MACAddr, error) {
	<-e.closed
	return nil, ethernet.MACAddr{}, errC33Closed
}
func (e *c33Eth) SendPacket(dst ethernet.MACAddr, pkt []byte) error {
	*e.sent = *e.sent + 1
	return nil
}
func (e *c33Eth) MCastJoin(addr ethernet.MACAddr) error { return nil }
func (e *c33Eth) GetMTU() int                           { return 1500 }
func (e *c33Eth) Close()                                { close(e.closed) }

type c33Err struct{}

func (c33Err) Error() string { return "closed" }

var errC33Closed error = c33Err{}

type c33Factory struct {
	sent    int
	created int
}

func (f *c33Factory) New(name string, bpf *ethernet.BPF, llc ethernet.LLC) (ethernet.EthernetInterfaceI, error) {
	f.created++
	return &c33Eth{closed: make(chan struct{}), sent: &f.sent}, nil
}

func VC33_UpDown() {
	n := vParam("n")
	passive := vParam("passive") == 1
	srv, _ := New([]*types.NET{{AreaID: types.AreaID{0x49, 0, 1}, SystemID: types.SystemID{1, 2, 3, 4, 5, 6}}}, &c33Upd{}, 1800)
	f := &c33Factory{}
	srv.SetEthernetInterfaceFactory(f)
	srv.SetHostnameFunc(func() (string, error) { return "h", nil })
	cfg := &InterfaceConfig{Name: "eth0", Passive: passive, PointToPoint: true, Level2: &InterfaceLevelConfig{HelloInterval: 1, HoldingTimer: 3, Metric: 10}}
	srv.AddInterface(cfg)
	ifa := srv.netIfaManager.getInterface("eth0")
	addrs := []*bnet.Prefix{bnet.NewPfx(bnet.IPv4(0x0a000001), 24).Ptr()}
	last := uint8(device.IfOperUnknown)
	for i := 0; i < n; i++ {
		st := uint8(device.IfOperDown)
		switch vChoice(3) {
		case 1:
			st = device.IfOperUp
		case 2:
			st = device.IfOperUnknown
		}
		ifa.DeviceUpdate(&c33Dev{state: st, addrs: addrs, tick: vParam("tick") == 1}) // must not panic and must return (no deadlock)
		vSettle()
		last = st
	}
	vReach("updown")
	if !passive {
		before := f.sent
		vAdvance(int64(3 * time.Second))
		vSettle()
		if last == device.IfOperUp {
			// after the last "up" the hello sender is alive: ticks produce hellos
			vAssert(f.sent > before, "C33.hello.after.up")
		} else {
			vAssert(f.sent == before, "C33.nohello.when.down")
		}
	} else {
		vAssert(f.created == 0, "C33.passive.noethernet")
	}
}

func VC33_Twin() {
	srv, _ := New([]*types.NET{{AreaID: types.AreaID{0x49, 0, 1}, SystemID: types.SystemID{1, 2, 3, 4, 5, 6}}}, &c33Upd{}, 1800)
	_ = srv
	vAssert(false, "C33.twin")
}
