package adjRIBIn

import (
	bnet "github.com/bio-routing/bio-rd/net"
	"github.com/bio-routing/bio-rd/protocols/bgp/types"
	"github.com/bio-routing/bio-rd/route"
	"github.com/bio-routing/bio-rd/routingtable"
	"github.com/bio-routing/bio-rd/routingtable/filter"
	"github.com/bio-routing/bio-rd/routingtable/filter/actions"
	"github.com/bio-routing/bio-rd/routingtable/locRIB"
	"github.com/bio-routing/bio-rd/routingtable/vrf"
)

// C05 — the Loc-RIB mirrors the accepted, policy-rewritten announcements of an Adj-RIB-In after every step of any
// history of announcements, withdrawals, flushes and (un)registrations, with a fixed import policy.

func c05Chain(which int, v uint32) filter.Chain {
	switch which {
	case 1:
		return filter.Chain{filter.NewFilter("lp", []*filter.Term{filter.NewTerm("t", nil, []actions.Action{actions.NewSetLocalPrefAction(v), actions.NewAcceptAction()})})}
	case 2:
		return filter.Chain{filter.NewFilter("med", []*filter.Term{filter.NewTerm("t", nil, []actions.Action{actions.NewSetMEDAction(v), actions.NewAcceptAction()})})}
	case 4:
		return filter.Chain{filter.NewFilter("prepend", []*filter.Term{filter.NewTerm("t", nil, []actions.Action{actions.NewASPathPrependAction(65009, 1), actions.NewAcceptAction()})})}
	case 3: // accept only the /8, reject the rest
		p8 := bnet.NewPfx(bnet.IPv4(0x0a000000), 8).Ptr()
		return filter.Chain{filter.NewFilter("only8", []*filter.Term{
			filter.NewTerm("t", []*filter.TermCondition{filter.NewTermConditionWithRouteFilters(filter.NewRouteFilter(p8, filter.NewExactMatcher()))}, []actions.Action{actions.NewAcceptAction()}),
			filter.NewTerm("rej", nil, []actions.Action{actions.NewRejectAction()})})}
	}
	return filter.NewAcceptAllFilterChain()
}

type c05Ann struct {
	present bool
	hidden  bool // the announcement is ineligible (AS loop): it replaces the previous one and contributes nothing
	med, lp uint32
	pathID  uint32
}

func c05Path(pathID uint32) *route.Path {
	nh := bnet.IPv4(0x0a000901)
	src := bnet.IPv4(0x0a000901)
	return &route.Path{Type: route.BGPPathType, BGPPath: &route.BGPPath{PathIdentifier: pathID,
		BGPPathA: &route.BGPPathA{NextHop: &nh, Source: &src, LocalPref: 100 + uint32(ndU8()&3), MED: uint32(ndU8() & 3), EBGP: true, BGPIdentifier: 9},
		ASPath:   types.NewASPath([]uint32{65101}), ASPathLen: 1}}
}

func VC05_History() {
	k := vParam("k")
	policy := vParam("policy")
	addPathRX := vParam("addpath") == 1
	pv := uint32(200 + ndU8()&1)
	v := vrf.NewUntrackedVRF("master", 0)
	v.AddContributingASN(65000)
	sa := routingtable.SessionAttrs{RouterID: 1, PeerIP: bnet.IPv4(0x0a000901).Ptr(), LocalIP: bnet.IPv4(0x0a000902).Ptr(), Type: route.BGPPathType, LocalASN: 65000, PeerASN: 65101, AddPathRX: addPathRX}
	ari := New(c05Chain(policy, pv), v, sa)
	rib := locRIB.New("inet.0")
	ari.Register(rib)
	registered := true
	pfxs := []*bnet.Prefix{bnet.NewPfx(bnet.IPv4(0x0a000000), 8).Ptr(), bnet.NewPfx(bnet.IPv4(0x0a010000), 16).Ptr()}
	var model [2][2]c05Ann // per prefix, per path id slot (only slot 0 without add-path)
	for step := 0; step < k; step++ {
		pi := 0
		if ndBool() {
			pi = 1
		}
		slot := 0
		if addPathRX && ndBool() {
			slot = 1
		}
		switch vChoice(4) {
		case 0: // announce (replaces the previous announcement for the prefix / path id)
			p := c05Path(uint32(slot))
			loop := ndBool()
			if loop { // the neighbour sends a path that already contains our AS
				p.BGPPath.ASPath = types.NewASPath([]uint32{65101, 65000})
				p.BGPPath.ASPathLen = 2
			}
			model[pi][slot] = c05Ann{present: true, hidden: loop, med: p.BGPPath.BGPPathA.MED, lp: p.BGPPath.BGPPathA.LocalPref, pathID: uint32(slot)}
			ari.AddPath(pfxs[pi], p)
		case 1: // withdraw
			ari.RemovePath(pfxs[pi], c05Path(uint32(slot)))
			if addPathRX {
				model[pi][slot] = c05Ann{}
			} else {
				model[pi] = [2]c05Ann{}
			}
		case 2: // flush (session reset)
			ari.Flush()
			model = [2][2]c05Ann{}
		case 3: // the Loc-RIB is unregistered / registered again
			if registered {
				ari.Unregister(rib)
			} else {
				ari.Register(rib)
			}
			registered = !registered
		}
		// --- what the session contributes to the Loc-RIB
		for i := range pfxs {
			want := 0
			for s := 0; s < 2; s++ {
				if registered && model[i][s].present && !model[i][s].hidden && !(policy == 3 && i == 1) {
					want++
				}
			}
			r := rib.Get(pfxs[i])
			got := 0
			if r != nil {
				got = len(r.Paths())
			}
			vAssert(got == want, "C05.count")
			if r == nil || got != want {
				continue
			}
			for _, p := range r.Paths() {
				s := int(p.BGPPath.PathIdentifier)
				if !addPathRX {
					s = 0
				}
				if s > 1 || !model[i][s].present || model[i][s].hidden {
					vAssert(false, "C05.unexpected.path")
					continue
				}
				wlp, wmed := model[i][s].lp, model[i][s].med
				if policy == 1 {
					wlp = pv
				}
				if policy == 2 {
					wmed = pv
				}
				vAssert(p.BGPPath.BGPPathA.LocalPref == wlp, "C05.localpref")
				vAssert(p.BGPPath.BGPPathA.MED == wmed, "C05.med")
				wlen := uint16(1)
				if policy == 4 {
					wlen = 2 // prepended exactly once, however often the policy has been evaluated
				}
				vAssert(p.BGPPath.ASPathLen == wlen, "C05.aspathlen")
			}
		}
	}
	vReach("history")
}

func VC05_Twin() {
	_ = c05Chain(1, 5)
	vAssert(false, "C05.twin")
}
