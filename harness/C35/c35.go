package dijkstra

// C35 — shortest-path tree on every graph: certificate oracle (no second algorithm).

var c35Names = []string{"a", "b", "c", "d", "e", "f", "g"}

type c35Graph struct {
	n     int
	nodes []Node
	has   [7][7]bool
	w     [7][7]int64
	edges []Edge
}

func (g *c35Graph) add(i, j int, w int64) {
	g.has[i][j] = true
	g.w[i][j] = w
	g.edges = append(g.edges, Edge{NodeA: g.nodes[i], NodeB: g.nodes[j], Distance: w})
}

func c35New(n int) *c35Graph {
	g := &c35Graph{n: n}
	for i := 0; i < n; i++ {
		g.nodes = append(g.nodes, Node{Name: c35Names[i]})
	}
	return g
}

func c35Weight() int64 {
	if b := vParam("wbits"); b <= 8 {
		return int64(ndU8() & uint8(1<<uint(b)-1))
	}
	w := int64(ndU64())
	vAssume(w >= 0)
	vAssume(w < 1<<56) // sums of up to 6 weights cannot overflow: overflow is outside "non-negative distances"
	return w
}

func (g *c35Graph) idx(nd Node) int {
	for i := 0; i < g.n; i++ {
		if g.nodes[i] == nd {
			return i
		}
	}
	return -1
}

// check the certificate of the tree computed from source s
func (g *c35Graph) check(s int) {
	t := NewTopology(g.nodes, g.edges)
	spt := t.SPT(g.nodes[s])
	vReach("spt")
	vAssert(len(spt) == g.n, "C35.allnodes")
	vAssert(spt[g.nodes[s]].Distance == 0, "C35.src")
	// bounded transitive closure = reachability
	var reach [7]bool
	reach[s] = true
	for round := 0; round < g.n; round++ {
		for i := 0; i < g.n; i++ {
			for j := 0; j < g.n; j++ {
				if reach[i] && g.has[i][j] {
					reach[j] = true
				}
			}
		}
	}
	for v := 0; v < g.n; v++ {
		p := spt[g.nodes[v]]
		vObserve(uint64(p.Distance))
		if !reach[v] {
			vAssert(p.Distance == -1, "C35.unreachable.marked")
			continue
		}
		vAssert(p.Distance >= 0, "C35.reachable.reached")
		// the reported path is a chain of existing edges from s to v whose weights sum to the distance
		cur := s
		var sum int64
		ok := true
		for _, e := range p.Edges {
			a, b := g.idx(e.NodeA), g.idx(e.NodeB)
			if a != cur || a < 0 || b < 0 || !g.has[a][b] {
				ok = false
				break
			}
			if e.Distance != g.w[a][b] {
				ok = false
				break
			}
			sum += e.Distance
			cur = b
		}
		vAssert(ok, "C35.path.edges")
		if ok {
			vAssert(cur == v, "C35.path.ends")
			vAssert(sum == p.Distance, "C35.path.sum")
		}
	}
	// minimality: no edge can be relaxed
	for i := 0; i < g.n; i++ {
		for j := 0; j < g.n; j++ {
			if g.has[i][j] && reach[i] {
				di, dj := spt[g.nodes[i]].Distance, spt[g.nodes[j]].Distance
				vAssert(dj <= di+g.w[i][j], "C35.minimal")
			}
		}
	}
}

// every directed graph on n nodes (all 2^(n(n-1)) edge subsets, symbolic weights), every source
func VC35_All() {
	n := vParam("n")
	g := c35New(n)
	for i := 0; i < n; i++ {
		for j := 0; j < n; j++ {
			if i != j && ndBool() {
				g.add(i, j, c35Weight())
			}
		}
	}
	g.check(vChoice(n))
}

// deep trees: a chain s -> 1 -> ... -> k followed by a fan-out, plus optional shortcut edges; weights symbolic.
// (paths of length >= 3 whose last node is the tree parent of several nodes)
func VC35_Deep() {
	k := vParam("chain")
	fan := vParam("fan")
	n := 1 + k + fan
	g := c35New(n)
	for i := 0; i < k; i++ {
		g.add(i, i+1, c35Weight())
	}
	for f := 0; f < fan; f++ {
		g.add(k, k+1+f, c35Weight())
	}
	// optional shortcuts from the source and between the leaves
	for f := 0; f < fan; f++ {
		if ndBool() {
			g.add(0, k+1+f, c35Weight())
		}
	}
	if fan >= 2 && ndBool() {
		g.add(k+1, k+2, c35Weight())
	}
	g.check(0)
}

// 4-node diamond: s -> {1,2} -> 3 with cross edges 1 <-> 2, optional direct edge s -> 3 and optional back edge
// 3 -> s; all weights symbolic. Two competing two-hop routes, a possible three-hop route (s,1,2,3 / s,2,1,3) that
// beats both, and a tie on every comparison are all inside the domain.
func VC35_Diamond() {
	g := c35New(4)
	g.add(0, 1, c35Weight())
	g.add(0, 2, c35Weight())
	g.add(1, 3, c35Weight())
	g.add(2, 3, c35Weight())
	if vParam("cross") == 1 {
		g.add(1, 2, c35Weight())
		g.add(2, 1, c35Weight())
	}
	if ndBool() {
		g.add(0, 3, c35Weight())
	}
	if ndBool() {
		g.add(3, 0, c35Weight())
	}
	g.check(vParam("src"))
}

func VC35_Twin() {
	g := c35New(2)
	g.add(0, 1, c35Weight())
	t := NewTopology(g.nodes, g.edges)
	_ = t.SPT(g.nodes[0])
	vAssert(false, "C35.twin")
}
