package locRIB

import (
	bnet "github.com/bio-routing/bio-rd/net"
	"github.com/bio-routing/bio-rd/route"
	"github.com/bio-routing/bio-rd/routingtable"
	"github.com/bio-routing/bio-rd/routingtable/filter"
)

// C04 — Loc-RIB clients hold exactly the selected paths they asked for, at every quiescent point of any history of
// route changes and client (un)registrations.

type c04Client struct {
	held     [2][]uint32 // per prefix: identities (peer address) of the paths the client currently holds
	bogus    bool        // a withdrawal for a path the client does not hold
	afterBye bool        // something was delivered after Unregister
	gone     bool
}

func c04ID(p *route.Path) uint32 { return uint32(p.BGPPath.BGPPathA.Source.Lower()) }

func c04Pfx(p *bnet.Prefix) int {
	if p.Len() == 8 {
		return 0
	}
	return 1
}

func (c *c04Client) AddPath(pfx *bnet.Prefix, p *route.Path) error {
	if c.gone {
		c.afterBye = true
	}
	i := c04Pfx(pfx)
	c.held[i] = append(c.held[i], c04ID(p))
	return nil
}
func (c *c04Client) AddPathInitialDump(pfx *bnet.Prefix, p *route.Path) error { return c.AddPath(pfx, p) }
func (c *c04Client) RemovePath(pfx *bnet.Prefix, p *route.Path) bool {
	if c.gone {
		c.afterBye = true
	}
	i := c04Pfx(pfx)
	id := c04ID(p)
	for k := range c.held[i] {
		if c.held[i][k] == id {
			c.held[i] = append(c.held[i][:k:k], c.held[i][k+1:]...)
			return true
		}
	}
	c.bogus = true
	return false
}
func (c *c04Client) ReplacePath(*bnet.Prefix, *route.Path, *route.Path) {}
func (c *c04Client) RefreshRoute(*bnet.Prefix, []*route.Path)          {}
func (c *c04Client) ReplaceFilterChain(filter.Chain)                   {}
func (c *c04Client) EndOfRIB()                                         {}
func (c *c04Client) Dispose()                                          {}

func c04Path(id uint32) *route.Path {
	nh := bnet.IPv4(0x0a000000 + id)
	src := bnet.IPv4(0xc0000200 + id)
	return &route.Path{Type: route.BGPPathType, BGPPath: &route.BGPPath{
		BGPPathA: &route.BGPPathA{NextHop: &nh, Source: &src, LocalPref: 100 + uint32(ndU8()&1), MED: uint32(ndU8() & 1), BGPIdentifier: id, EBGP: true},
		ASPathLen: 2}}
}

func c04Options() routingtable.ClientOptions {
	switch vChoice(4) {
	case 0:
		return routingtable.ClientOptions{BestOnly: true}
	case 1:
		return routingtable.ClientOptions{EcmpOnly: true}
	case 2:
		return routingtable.ClientOptions{MaxPaths: 1}
	}
	return routingtable.ClientOptions{MaxPaths: 2}
}

func c04Admits(o routingtable.ClientOptions, r *route.Route) int {
	if r == nil {
		return 0
	}
	n := len(r.Paths())
	switch {
	case o.BestOnly:
		if n > 1 {
			return 1
		}
		return n
	case o.EcmpOnly:
		return int(r.ECMPPathCount())
	}
	if int(o.MaxPaths) < n {
		return int(o.MaxPaths)
	}
	return n
}

func c04Check(rib *LocRIB, pfxs []*bnet.Prefix, cl *c04Client, o routingtable.ClientOptions, tag string) {
	for i, pfx := range pfxs {
		r := rib.Get(pfx)
		n := c04Admits(o, r)
		vAssert(len(cl.held[i]) == n, "C04.count."+tag)
		if len(cl.held[i]) != n {
			continue
		}
		ps := r.Paths()
		for k := 0; k < n; k++ {
			found := false
			for _, h := range cl.held[i] {
				if h == c04ID(ps[k]) {
					found = true
				}
			}
			vAssert(found, "C04.member."+tag)
		}
	}
	vAssert(!cl.bogus, "C04.withdraw.held."+tag)
}

func VC04_History() {
	k := vParam("k")
	npfx := vParam("prefixes")
	rib := New("inet.0")
	pfxs := []*bnet.Prefix{bnet.NewPfx(bnet.IPv4(0x0a000000), 8).Ptr(), bnet.NewPfx(bnet.IPv4(0x0a010000), 16).Ptr()}[:npfx]
	var stored [2][]*route.Path
	clients := []*c04Client{{}, {}}
	var opts [2]routingtable.ClientOptions
	var registered [2]bool
	nextID := uint32(1)
	for step := 0; step < k; step++ {
		pi := 0
		if npfx == 2 && ndBool() {
			pi = 1
		}
		op := vChoice(5)
		if step == 1 { // entries are split by the second operation so that they run in parallel
			if f := vParam("second"); f >= 0 {
				vAssume(op == f)
			}
		}
		switch op {
		case 0: // a new path arrives
			if len(stored[pi]) < 3 {
				p := c04Path(nextID)
				nextID++
				rib.AddPath(pfxs[pi], p)
				stored[pi] = append(stored[pi], p)
			}
		case 1: // a stored path is withdrawn
			if n := len(stored[pi]); n > 0 {
				j := vChoice(3)
				if j < n {
					rib.RemovePath(pfxs[pi], stored[pi][j])
					stored[pi] = append(stored[pi][:j:j], stored[pi][j+1:]...)
				}
			}
		case 4: // a stored path is replaced by a re-evaluated version of itself (policy change): same peer, new attributes
			if n := len(stored[pi]); n > 0 {
				j := vChoice(3)
				if j < n {
					np := c04Path(c04ID(stored[pi][j]) - 0xc0000200)
					rib.ReplacePath(pfxs[pi], stored[pi][j], np)
					stored[pi][j] = np
				}
			}
		case 2: // a client registers
			ci := vChoice(2)
			if !registered[ci] && !clients[ci].gone {
				opts[ci] = c04Options()
				rib.RegisterWithOptions(clients[ci], opts[ci])
				registered[ci] = true
			}
		case 3: // a client unregisters
			ci := vChoice(2)
			if registered[ci] {
				rib.Unregister(clients[ci])
				registered[ci] = false
				clients[ci].gone = true
			}
		}
		for ci := range clients {
			if registered[ci] {
				c04Check(rib, pfxs, clients[ci], opts[ci], "step")
			}
			vAssert(!clients[ci].afterBye, "C04.nothing.after.unregister")
		}
	}
	vReach("history")
}

func VC04_Twin() {
	rib := New("inet.0")
	rib.AddPath(bnet.NewPfx(bnet.IPv4(0x0a000000), 8).Ptr(), c04Path(1))
	vAssert(false, "C04.twin")
}
