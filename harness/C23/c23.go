package server

import (
	"errors"
	"net"
	"time"

	bnet "github.com/bio-routing/bio-rd/net"
	"github.com/bio-routing/bio-rd/protocols/bgp/packet"
	"github.com/bio-routing/bio-rd/routingtable/filter"
	"github.com/bio-routing/bio-rd/routingtable/locRIB"
	"github.com/bio-routing/bio-rd/routingtable/vrf"
)

// C23 — the session state machine refines the RFC 4271 FSM: the real FSM.run loop runs in its own goroutine, the
// harness plays the environment (administrative events, connection events, messages, timers on the virtual clock)
// and checks every observed step against the abstract transition relation and the attachment / connection invariants.

type c23Conn struct {
	net.Conn
	closed    bool
	failWrite bool
	readFail  chan struct{} // closed when the peer resets the connection: blocked reads return an error
	notifs    int
}

func (c *c23Conn) Read(b []byte) (int, error) {
	<-c.readFail
	return 0, errors.New("connection reset by peer")
}
func (c *c23Conn) Write(b []byte) (int, error) {
	if c.failWrite {
		return 0, errors.New("broken pipe")
	}
	if len(b) >= 21 && b[18] == packet.NotificationMsg {
		c.notifs++
	}
	return len(b), nil
}
func (c *c23Conn) Close() error { c.closed = true; return nil }

const (
	c23Idle = iota
	c23Connect
	c23Active
	c23OpenSent
	c23OpenConfirm
	c23Established
	c23Cease
)

func c23StateOf(s state) int {
	switch s.(type) {
	case *idleState:
		return c23Idle
	case *connectState:
		return c23Connect
	case *activeState:
		return c23Active
	case *openSentState:
		return c23OpenSent
	case *openConfirmState:
		return c23OpenConfirm
	case *establishedState:
		return c23Established
	}
	return c23Cease
}

const (
	evManualStart = iota
	evAutomaticStart
	evManualStop
	evAutomaticStop
	evCease
	evConnected
	evOpen
	evKeepalive
	evUpdate
	evNotification
	evMalformed
	evConnectionReset
	evConnectRetryTimer
	evHoldTimer
	evKeepaliveTimer
	evBadOpen
	c23NumEvents
)

type c23Env struct {
	quiet time.Duration // virtual time since the peer's last KEEPALIVE / UPDATE
	done  bool          // FSM.run has returned (Cease)
	fsm   *FSM
	rib   *locRIB.LocRIB
	vrf   *vrf.VRF
	conns []*c23Conn
	dials int
}

func c23Msg(t uint8, body []byte) []byte {
	l := 19 + len(body)
	m := make([]byte, 0, l+32)
	for i := 0; i < 16; i++ {
		m = append(m, 0xff)
	}
	m = append(m, uint8(l>>8), uint8(l), t)
	m = append(m, body...)
	return m[:l+32]
}

func c23Setup(passive bool) *c23Env {
	v := vrf.NewUntrackedVRF("master", 0)
	rib := locRIB.New("inet.0")
	p := &peer{
		addr: bnet.IPv4FromOctets(169, 254, 100, 100).Ptr(), localAddr: bnet.IPv4FromOctets(169, 254, 100, 1).Ptr(),
		localASN: 65000, peerASN: 65001, routerID: 0x0a000001, holdTime: 90 * time.Second, passive: passive,
		ipv4: &peerAddressFamily{rib: rib, importFilterChain: filter.NewAcceptAllFilterChain(), exportFilterChain: filter.NewAcceptAllFilterChain()},
		vrf:  v, adjRIBInFactory: adjRIBInFactory{},
	}
	fsm := newFSM(p)
	p.fsms = append(p.fsms, fsm)
	fsm.connectRetryTimer = time.NewTimer(fsm.connectRetryTime)
	env := &c23Env{fsm: fsm, rib: rib, vrf: v}
	// the TCP connector of the environment: takes dial requests, never answers by itself
	go func() {
		for {
			<-fsm.initiateCon
			env.dials++
		}
	}()
	return env
}

func (env *c23Env) newConn() *c23Conn {
	c := &c23Conn{readFail: make(chan struct{}), failWrite: vParam("failwrite") == 1}
	env.conns = append(env.conns, c)
	return c
}

// start the FSM in the given state as if it had got there
func (env *c23Env) enter(st int) {
	fsm := env.fsm
	switch st {
	case c23Idle:
		fsm.state = newIdleState(fsm)
	case c23Connect:
		fsm.state = newConnectState(fsm)
	case c23Active:
		fsm.state = newActiveState(fsm)
	case c23OpenSent:
		stopTimer(fsm.connectRetryTimer)
		fsm.con = env.newConn()
		fsm.lastUpdateOrKeepalive = time.Now()
		fsm.holdTime = 90 * time.Second
		fsm.state = newOpenSentState(fsm)
	case c23OpenConfirm:
		stopTimer(fsm.connectRetryTimer)
		fsm.con = env.newConn()
		fsm.msgRecvFailCh = make(chan error, 1) // the receiver OpenSent started for this connection
		go fsm.msgReceiver(fsm.con, fsm.msgRecvFailCh)
		fsm.holdTime = 90 * time.Second
		fsm.keepaliveTime = 30 * time.Second
		fsm.keepaliveTimer = time.NewTimer(fsm.keepaliveTime)
		fsm.lastUpdateOrKeepalive = time.Now()
		fsm.neighborID = 9
		fsm.state = newOpenConfirmState(fsm)
	case c23Established:
		stopTimer(fsm.connectRetryTimer)
		fsm.con = env.newConn()
		fsm.msgRecvFailCh = make(chan error, 1) // the receiver OpenSent started for this connection
		go fsm.msgReceiver(fsm.con, fsm.msgRecvFailCh)
		fsm.holdTime = 90 * time.Second
		fsm.keepaliveTime = 30 * time.Second
		fsm.keepaliveTimer = time.NewTimer(fsm.keepaliveTime)
		fsm.lastUpdateOrKeepalive = time.Now()
		fsm.neighborID = 9
		fsm.state = newEstablishedState(fsm)
	}
}

// deliver one environment event; returns false if the current state cannot take it (nothing happens)
func (env *c23Env) inject(ev int) bool {
	fsm := env.fsm
	sendEv := func(e int) bool {
		select {
		case fsm.eventCh <- e:
			return true
		default:
			return false
		}
	}
	sendMsg := func(m []byte) bool {
		select {
		case fsm.msgRecvCh <- m:
			return true
		default:
			return false
		}
	}
	switch ev {
	case evManualStart:
		return sendEv(ManualStart)
	case evAutomaticStart:
		return sendEv(AutomaticStart)
	case evManualStop:
		return sendEv(ManualStop)
	case evAutomaticStop:
		return sendEv(AutomaticStop)
	case evCease:
		return sendEv(Cease)
	case evConnected:
		c := env.newConn()
		select {
		case fsm.conCh <- c:
			return true
		default:
			env.conns = env.conns[:len(env.conns)-1]
			return false
		}
	case evOpen:
		return sendMsg(c23Msg(packet.OpenMsg, []byte{4, 0xfd, 0xe9, 0, 90, 10, 0, 0, 9, 0}))
	case evBadOpen:
		return sendMsg(c23Msg(packet.OpenMsg, []byte{4, 0xfd, 0xe8, 0, 90, 10, 0, 0, 9, 0})) // wrong peer AS
	case evKeepalive:
		return sendMsg(c23Msg(packet.KeepaliveMsg, nil))
	case evUpdate:
		return sendMsg(c23Msg(packet.UpdateMsg, []byte{0, 0, 0, 20, 0x40, 1, 1, 0, 0x40, 2, 4, 2, 1, 0xfd, 0xe9, 0x40, 3, 4, 169, 254, 100, 100, 0x80, 4, 4, 0, 0, 0, ndU8(), 16, 10, 7}))
	case evNotification:
		code, sub := ndU8(), ndU8() // any NOTIFICATION the decoder accepts
		vAssume(code >= 1 && code <= 6 && sub <= 11)
		return sendMsg(c23Msg(packet.NotificationMsg, []byte{code, sub}))
	case evMalformed:
		m := c23Msg(packet.KeepaliveMsg, nil)
		m[3] = 0
		return sendMsg(m)
	case evConnectionReset:
		if c, ok := fsm.con.(*c23Conn); ok && c != nil && !c.closed {
			select {
			case <-c.readFail:
				return false
			default:
			}
			close(c.readFail)
			return true
		}
		return false
	case evConnectRetryTimer:
		if st := env.observe(); st != c23Connect && st != c23Active {
			return false // the timer is stopped once a connection exists
		}
		vAdvance(int64(fsm.connectRetryTime + time.Second))
		env.quiet += fsm.connectRetryTime + time.Second
		return true
	case evHoldTimer:
		if st := env.observe(); st < c23OpenSent || st > c23Established {
			return false
		}
		if vParam("failwrite") == 2 {
			// the transport dies after the second keepalive interval: the hold timer runs out on a dead connection
			vAdvance(int64(30*time.Second + time.Millisecond))
			vSettle()
			vAdvance(int64(30*time.Second + time.Millisecond))
			vSettle()
			if c, ok := fsm.con.(*c23Conn); ok && c != nil {
				c.failWrite = true
			}
			vAdvance(int64(31 * time.Second))
		} else {
			vAdvance(int64(91 * time.Second))
		}
		env.quiet += 91 * time.Second
		return true
	case evKeepaliveTimer:
		if st := env.observe(); st != c23OpenConfirm && st != c23Established {
			return false
		}
		vAdvance(int64(30*time.Second + time.Millisecond))
		env.quiet += 30*time.Second + time.Millisecond
		return true
	}
	return false
}

// the abstract machine: is (from --ev--> to) a step of the RFC 4271 FSM (as far as bio-rd's states map onto it)?
func c23Allowed(from, ev, to int, took bool) bool {
	if !took {
		return to == from
	}
	if ev == evCease {
		return to == c23Cease
	}
	if ev == evAutomaticStop && to == from {
		return true // an optional event of RFC 4271 (8.1.2) that nothing in bio-rd generates: ignoring it is allowed
	}
	switch from {
	case c23Idle:
		if ev == evManualStart || ev == evAutomaticStart {
			return to == c23Connect || to == c23Active
		}
		return to == c23Idle
	case c23Connect:
		switch ev {
		case evManualStop:
			return to == c23Idle
		case evConnected:
			return to == c23OpenSent || to == c23Idle
		case evConnectRetryTimer:
			return to == c23Connect
		}
		return to == c23Connect
	case c23Active:
		switch ev {
		case evManualStop:
			return to == c23Idle
		case evConnected:
			return to == c23OpenSent || to == c23Idle
		case evConnectRetryTimer:
			return to == c23Connect
		}
		return to == c23Active
	case c23OpenSent:
		switch ev {
		case evManualStop, evAutomaticStop, evKeepalive, evUpdate, evNotification, evMalformed, evHoldTimer, evBadOpen:
			return to == c23Idle
		case evOpen:
			return to == c23OpenConfirm
		case evConnectionReset:
			return to == c23Active
		}
		return to == c23OpenSent
	case c23OpenConfirm:
		switch ev {
		case evManualStop, evAutomaticStop, evOpen, evBadOpen, evUpdate, evNotification, evMalformed, evHoldTimer, evConnectionReset:
			return to == c23Idle
		case evKeepalive:
			return to == c23Established
		}
		return to == c23OpenConfirm
	case c23Established:
		switch ev {
		case evManualStop, evAutomaticStop, evOpen, evBadOpen, evNotification, evMalformed, evHoldTimer, evConnectionReset:
			return to == c23Idle
		}
		return to == c23Established
	}
	return to == c23Cease
}

func (env *c23Env) observe() int {
	if env.done {
		return c23Cease
	}
	env.fsm.stateMu.RLock()
	s := c23StateOf(env.fsm.state)
	env.fsm.stateMu.RUnlock()
	return s
}

func (env *c23Env) attached() bool {
	f := env.fsm.ipv4Unicast
	return env.fsm.ribsInitialized || f.initialized || env.rib.ClientCount() > 0 || env.vrf.IsContributingASN(65000)
}

func (env *c23Env) fullyAttached() bool {
	f := env.fsm.ipv4Unicast
	return env.fsm.ribsInitialized && f.initialized && env.rib.ClientCount() == 1 && env.vrf.IsContributingASN(65000)
}

func VC23_Steps() {
	env := c23Setup(vParam("passive") == 1)
	start := vParam("start")
	env.enter(start)
	go func() {
		env.fsm.run()
		env.done = true
	}()
	vSettle()
	cur := env.observe()
	vAssert(cur == start, "C23.start")
	k := vParam("k")
	for i := 0; i < k; i++ {
		ev := vParam("ev")
		if ev < 0 || i > 0 {
			ev = vChoice(c23NumEvents)
		}
		ribBefore := env.rib.RouteCount()
		con, _ := env.fsm.con.(*c23Conn)
		took := env.inject(ev)
		if took && (ev == evKeepalive || ev == evUpdate || ev == evOpen) {
			env.quiet = 0
		}
		vSettle()
		if took && ev == evHoldTimer {
			// the hold time is checked once a second: let the next check happen (no message arrives meanwhile)
			vSettle()
			vAdvance(int64(2 * time.Second))
			vSettle()
		}
		next := env.observe()
		vTrace("step")
		vObserve(uint64(cur*1000 + ev*10 + next))
		holdDue := env.quiet > 90*time.Second && cur >= c23OpenSent && cur <= c23Established && next == c23Idle
		if cur < c23OpenSent {
			env.quiet = 0
		}
		// a timer event that lets the hold time run out is a hold timer expiry
		// on a transport that refuses writes, sending the KEEPALIVE fails: TcpConnectionFails (OpenSent -> Active, later -> Idle)
		writeFailed := vParam("failwrite") >= 1 && took && ((cur == c23OpenSent && (ev == evOpen || ev == evBadOpen) && next == c23Active) ||
			((cur == c23OpenConfirm || cur == c23Established) && ev == evKeepaliveTimer && next == c23Idle))
		vAssert(c23Allowed(cur, ev, next, took) || writeFailed || (holdDue && (ev == evKeepaliveTimer || ev == evConnectRetryTimer)), "C23.step.allowed")
		// routes are attached to the Loc-RIB exactly while the session is Established
		if next == c23Established {
			vAssert(env.fullyAttached(), "C23.established.attached")
		} else {
			vAssert(!env.attached(), "C23.not.established.detached")
		}
		// UPDATEs are only processed in Established
		if env.rib.RouteCount() > ribBefore {
			vAssert(cur == c23Established && ev == evUpdate && next == c23Established, "C23.update.only.in.established")
		}
		if env.rib.RouteCount() < ribBefore {
			vAssert(cur == c23Established, "C23.routes.leave.only.from.established") // withdrawn by an UPDATE or by leaving
		}
		if next != c23Established {
			vAssert(env.rib.RouteCount() == 0, "C23.no.routes.outside.established")
		}
		// every return to Idle from OpenSent, OpenConfirm or Established closes the connection
		if next == c23Idle && cur >= c23OpenSent && cur <= c23Established && con != nil {
			vAssert(con.closed, "C23.idle.closes.connection")
		}
		if next == c23Cease && con != nil && cur >= c23OpenSent {
			vAssert(con.closed, "C23.cease.closes.connection")
		}
		cur = next
		if cur == c23Cease {
			break
		}
	}
	vReach("steps")
}

func VC23_Twin() {
	env := c23Setup(false)
	_ = env
	vAssert(false, "C23.twin")
}
