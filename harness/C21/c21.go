package server

import (
	"bytes"
	"io"
	"net"
	"time"

	bnet "github.com/bio-routing/bio-rd/net"
	"github.com/bio-routing/bio-rd/protocols/bgp/packet"
	"github.com/bio-routing/bio-rd/routingtable/filter"
	"github.com/bio-routing/bio-rd/routingtable/locRIB"
	"github.com/bio-routing/bio-rd/routingtable/vrf"
)

// C21 — no byte stream from a peer crashes or wedges the speaker; a malformed message is answered with the
// NOTIFICATION of RFC 4271 section 6 before the connection is closed.

type c21Conn struct {
	net.Conn
	in                  []byte // what the peer sends; reads beyond it deliver zero bytes (content is irrelevant there)
	pos                 int
	notifs              int
	notifCode, notifSub uint8
	notifLen            int
	closed              bool
	closedBeforeNotif   bool
	otherWrites         int
}

// Read delivers the header on the first call and "whatever the peer sends" (left as the buffer's zeros: the
// framing code never looks at it) on the following ones; a read always fills the whole slice.
func (c *c21Conn) Read(p []byte) (int, error) {
	if c.pos == 0 {
		copy(p, c.in)
	}
	c.pos += len(p)
	return len(p), nil
}

func (c *c21Conn) Write(b []byte) (int, error) {
	if len(b) >= 21 && b[18] == packet.NotificationMsg {
		if c.closed {
			c.closedBeforeNotif = true
		}
		c.notifs++
		c.notifCode, c.notifSub = b[19], b[20]
		c.notifLen = int(b[16])<<8 | int(b[17])
	} else {
		c.otherWrites++
	}
	return len(b), nil
}
func (c *c21Conn) Close() error { c.closed = true; return nil }

func c21FSM() (*FSM, *c21Conn) {
	p := &peer{
		addr: bnet.IPv4FromOctets(169, 254, 100, 100).Ptr(), localAddr: bnet.IPv4FromOctets(169, 254, 100, 1).Ptr(),
		localASN: 65000, peerASN: 65001, routerID: 0x0a000001, holdTime: 90 * time.Second,
		ipv4: &peerAddressFamily{rib: locRIB.New("inet.0"), importFilterChain: filter.NewAcceptAllFilterChain(), exportFilterChain: filter.NewAcceptAllFilterChain()},
		ipv6: &peerAddressFamily{rib: locRIB.New("inet6.0"), importFilterChain: filter.NewAcceptAllFilterChain(), exportFilterChain: filter.NewAcceptAllFilterChain()},
		vrf:  vrf.NewUntrackedVRF("master", 0), adjRIBInFactory: adjRIBInFactory{},
	}
	fsm := newFSM(p)
	p.fsms = append(p.fsms, fsm)
	cc := &c21Conn{}
	fsm.con = cc
	fsm.connectRetryTimer = time.NewTimer(time.Minute)
	return fsm, cc
}

// (A) framing: recvMsg on any 19 header bytes (the length field decides how much more is read)
func VC21_RecvMsg() {
	cc := &c21Conn{in: ndBytes(19)}
	msg, err := recvMsg(cc)
	vReach("recv")
	if err == nil {
		vAssert(len(msg) >= packet.MinLen, "C21.recv.buffer")
		// the framed message goes to the decoder unchanged: same header bytes
		for i := 0; i < 19; i++ {
			vAssert(msg[i] == cc.in[i], "C21.recv.header.kept")
		}
	}
}

// c21Wire builds what recvMsg hands to the state: 19+k peer-chosen bytes of which only the first l (the length field)
// were read from the wire, the rest of the receive buffer (bounded to "pad" bytes) is zero.
func c21Wire() []byte {
	k := vParam("k")
	raw := ndBytes(19 + k)
	if vParam("marker") == 1 {
		for i := 0; i < 16; i++ {
			raw[i] = 0xff
		}
	}
	if t := vParam("type"); t > 0 {
		raw[18] = uint8(t)
	}
	if vParam("exactlen") == 1 { // the length field matches what was sent (other lengths: the k = 0 entries and C19)
		raw[16], raw[17] = uint8((19+k)>>8), uint8(19+k)
	}
	l := int(raw[16])<<8 | int(raw[17])
	data := make([]byte, 19+k+vParam("pad"))
	for i := range raw {
		if i < 19 {
			data[i] = raw[i]
		} else {
			data[i] = uint8(vIte64(i < l, uint64(raw[i]), 0))
		}
	}
	return data
}

// RFC 4271 6.1: the message header error a header must be answered with (0,0 if the header is acceptable)
func c21RefHeader(d []byte) (code, sub uint8, either bool) {
	for i := 0; i < 16; i++ {
		if d[i] != 0xff {
			return packet.MessageHeaderError, packet.ConnectionNotSync, false
		}
	}
	l := int(d[16])<<8 | int(d[17])
	t := d[18]
	badType := t < 1 || t > 4
	badLen := l < 19 || l > 4096 || (t == packet.OpenMsg && l < 29) || (t == packet.UpdateMsg && l < 23) ||
		(t == packet.NotificationMsg && l < 21) || (t == packet.KeepaliveMsg && l != 19)
	if badLen && badType {
		return packet.MessageHeaderError, packet.BadMessageLength, true
	}
	if badLen {
		return packet.MessageHeaderError, packet.BadMessageLength, false
	}
	if badType {
		return packet.MessageHeaderError, packet.BadMessageType, false
	}
	return 0, 0, false
}

func c21Sym(i uint, valid uint8) uint8 {
	if vParam("sym")&(1<<i) != 0 {
		return ndU8()
	}
	return valid
}

// c21UpdateMP: a valid multiprotocol UPDATE (MP_REACH_NLRI IPv6 with a 16- or 32-byte next hop, ORIGIN, AS_PATH) in
// which the fields selected by "sym" are symbolic: 0 total attribute length, 1 MP_REACH length, 2 AFI, 3 SAFI,
// 4 next-hop length, 5 NLRI prefix length, 6 ORIGIN length, 7 AS_PATH length, 8 segment count, 9 attribute flags
func c21UpdateMP() []byte {
	nh := []byte{0x20, 0x01, 0x0d, 0xb8, 0, 0, 0, 0, 0, 0, 0, 0, 0, 0, 0, 1}
	nhl := uint8(16)
	if vParam("nh32") == 1 {
		nh = append(nh, 0xfe, 0x80, 0, 0, 0, 0, 0, 0, 0, 0, 0, 0, 0, 0, 0, 1)
		nhl = 32
	}
	mp := []byte{0, c21Sym(2, 2), c21Sym(3, 1), c21Sym(4, nhl)}
	mp = append(mp, nh...)
	mp = append(mp, 0, c21Sym(5, 32), 0x20, 0x01, 0x0d, 0xb8)
	if cut := vParam("cut"); cut > 0 {
		mp = mp[:len(mp)-cut] // the attribute ends early
	}
	attrs := []byte{c21Sym(9, 0x80), packet.MultiProtocolReachNLRIAttr, c21Sym(1, uint8(len(mp)))}
	attrs = append(attrs, mp...)
	attrs = append(attrs, 0x40, packet.OriginAttr, c21Sym(6, 1), 0)
	attrs = append(attrs, 0x40, packet.ASPathAttr, c21Sym(7, 4), 2, c21Sym(8, 1), 0xfd, 0xe9)
	body := []byte{0, 0, 0, c21Sym(0, uint8(len(attrs)))}
	body = append(body, attrs...)
	l := 19 + len(body)
	data := make([]byte, 0, l+24)
	for i := 0; i < 16; i++ {
		data = append(data, 0xff)
	}
	data = append(data, uint8(l>>8), uint8(l), packet.UpdateMsg)
	data = append(data, body...)
	return data[:l+24]
}

// (B2) a multiprotocol UPDATE with mutated length fields delivered to an Established session
func VC21_UpdateMP() {
	fsm, cc := c21FSM()
	fsm.ipv4Unicast.init()
	fsm.ipv6Unicast.init()
	s := newEstablishedState(fsm)
	fsm.state = s
	data := c21UpdateMP()
	next, _ := s.msgReceived(data, fsm.decodeOptions(), false, 0)
	vReach("handled")
	vAssert(next != nil, "C21.next.state")
	vAssert(!cc.closedBeforeNotif, "C21.notification.before.close")
	_, derr := packet.Decode(bytes.NewBuffer(data), fsm.decodeOptions())
	if derr == nil {
		_, est := next.(*establishedState)
		vAssert(est, "C21.wellformed.stays.established")
		vAssert(cc.notifs == 0 && !cc.closed, "C21.wellformed.no.notification")
		return
	}
	vReach("malformed")
	_, idle := next.(*idleState)
	vAssert(idle, "C21.malformed.idle")
	vAssert(cc.closed, "C21.malformed.closed")
	vAssert(cc.notifs == 1 && cc.notifLen == 21, "C21.malformed.notification")
	vAssert(cc.notifCode == packet.UpdateMessageError, "C21.update.code")
	vAssert(cc.notifSub >= 1 && cc.notifSub <= 11 && cc.notifSub != 7, "C21.update.subcode")
}

// (B) one message of any content delivered to a session in OpenSent (1), OpenConfirm (2) or Established (3)
func VC21_Message() {
	fsm, cc := c21FSM()
	data := c21Wire()
	var next state
	switch vParam("state") {
	case 1:
		s := newOpenSentState(fsm)
		fsm.state = s
		next, _ = s.msgReceived(data, fsm.decodeOptions())
	case 2:
		s := newOpenConfirmState(fsm)
		fsm.state = s
		next, _ = s.msgReceived(data, fsm.decodeOptions())
	default:
		fsm.ipv4Unicast.init()
		fsm.ipv6Unicast.init()
		s := newEstablishedState(fsm)
		fsm.state = s
		next, _ = s.msgReceived(data, fsm.decodeOptions(), false, 0)
	}
	vReach("handled")
	vAssert(next != nil, "C21.next.state")
	vAssert(!cc.closedBeforeNotif, "C21.notification.before.close")
	vAssert(cc.notifs <= 1, "C21.notification.once")
	hc, hs, either := c21RefHeader(data)
	_, derr := packet.Decode(bytes.NewBuffer(data), fsm.decodeOptions())
	malformed := hc != 0 || derr != nil
	if !malformed {
		return
	}
	vReach("malformed")
	_, idle := next.(*idleState)
	vAssert(idle, "C21.malformed.idle")
	vAssert(cc.closed, "C21.malformed.closed")
	if hc == 0 && data[18] == packet.NotificationMsg {
		return // RFC 4271 6.4: an error in a NOTIFICATION cannot be reported with a NOTIFICATION
	}
	vAssert(cc.notifs == 1, "C21.malformed.notification")
	vAssert(cc.notifLen == 21, "C21.malformed.notification.len")
	if hc != 0 {
		vAssert(cc.notifCode == hc, "C21.header.code")
		if either {
			vAssert(cc.notifSub == packet.BadMessageLength || cc.notifSub == packet.BadMessageType, "C21.header.subcode")
		} else {
			vAssert(cc.notifSub == hs, "C21.header.subcode")
		}
		return
	}
	switch data[18] {
	case packet.OpenMsg:
		vAssert(cc.notifCode == packet.OpenMessageError, "C21.open.code")
		vAssert(cc.notifSub <= 7 && cc.notifSub != 5, "C21.open.subcode")
	case packet.UpdateMsg:
		vAssert(cc.notifCode == packet.UpdateMessageError, "C21.update.code")
		vAssert(cc.notifSub >= 1 && cc.notifSub <= 11 && cc.notifSub != 7, "C21.update.subcode")
	}
}

// (C) the receive loop end to end: msgReceiver goroutine body, one iteration, on a connection delivering a header of any
// content: it must hand either a message or an error to the state machine and not crash
func VC21_Receiver() {
	fsm, cc := c21FSM()
	cc.in = ndBytes(19)
	l := int(cc.in[16])<<8 | int(cc.in[17])
	vAssume(l < 32 || l > 4096) // the in-range lengths are VC21_RecvMsg's and VC21_Message's subject
	fsm.msgRecvCh = make(chan []byte, 2)
	fsm.msgRecvFailCh = make(chan error, 2)
	msg, err := recvMsg(fsm.con)
	if err != nil {
		fsm.msgRecvFailCh <- err
	} else {
		fsm.msgRecvCh <- msg
	}
	vReach("received")
	vAssert(len(fsm.msgRecvCh)+len(fsm.msgRecvFailCh) == 1, "C21.receiver.delivers")
	if err == nil {
		s := newEstablishedState(fsm)
		fsm.ipv4Unicast.init()
		fsm.ipv6Unicast.init()
		next, _ := s.msgReceived(msg, fsm.decodeOptions(), false, 0)
		vAssert(next != nil, "C21.receiver.next")
		hc, _, _ := c21RefHeader(msg)
		if hc != 0 {
			vAssert(cc.notifs == 1 && cc.notifCode == hc, "C21.receiver.header.notification")
			vAssert(cc.closed, "C21.receiver.closed")
		}
	}
}

var _ = io.EOF

func VC21_Twin() {
	fsm, _ := c21FSM()
	_ = fsm
	vAssert(false, "C21.twin")
}
