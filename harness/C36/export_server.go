package server

import (
	bnet "github.com/bio-routing/bio-rd/net"
	"github.com/bio-routing/bio-rd/routingtable/vrf"
)

// VerifPeerKey builds a PeerKey for the C36 harness' BGP server double (overlay only; never part of the build)
func VerifPeerKey(v *vrf.VRF, ip *bnet.IP) PeerKey { return PeerKey{vrf: v, neighborIP: ip} }
