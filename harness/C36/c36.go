package main

import (
	"errors"

	"github.com/bio-routing/bio-rd/cmd/bio-rd/config"
	bnet "github.com/bio-routing/bio-rd/net"
	"github.com/bio-routing/bio-rd/net/tcp"
	"github.com/bio-routing/bio-rd/protocols/bgp/metrics"
	bgpserver "github.com/bio-routing/bio-rd/protocols/bgp/server"
	"github.com/bio-routing/bio-rd/routingtable/adjRIBIn"
	"github.com/bio-routing/bio-rd/routingtable/adjRIBOut"
	"github.com/bio-routing/bio-rd/routingtable/filter"
	"github.com/bio-routing/bio-rd/routingtable/vrf"
)

// C36 — reloading the configuration converges to the new configuration. A double of the BGP server records the
// effective settings of every session (what AddPeer was given, plus later policy replacements); configuration A then
// B applied to one server must leave the same sessions with the same settings as B applied to a fresh server.

type c36Session struct {
	cfg      bgpserver.PeerConfig
	imp, exp filter.Chain // effective policies (AddPeer's, or the last replacement)
	adds     int
}

type c36Srv struct {
	defVRF *vrf.VRF
	sess   []*c36Session
}

func (s *c36Srv) find(v *vrf.VRF, ip *bnet.IP) int {
	for i, x := range s.sess {
		if x.cfg.VRF == v && *x.cfg.PeerAddress == *ip {
			return i
		}
	}
	return -1
}
func (s *c36Srv) RouterID() uint32 { return 0x0a000001 }
func (s *c36Srv) Start()           {}
func (s *c36Srv) AddPeer(c bgpserver.PeerConfig) error {
	if s.find(c.VRF, c.PeerAddress) >= 0 {
		return errors.New("peer exists")
	}
	x := &c36Session{cfg: c, adds: 1}
	if c.IPv4 != nil {
		x.imp, x.exp = c.IPv4.ImportFilterChain, c.IPv4.ExportFilterChain
	} else if c.IPv6 != nil {
		x.imp, x.exp = c.IPv6.ImportFilterChain, c.IPv6.ExportFilterChain
	}
	s.sess = append(s.sess, x)
	return nil
}
func (s *c36Srv) GetPeerConfig(v *vrf.VRF, ip *bnet.IP) *bgpserver.PeerConfig {
	if i := s.find(v, ip); i >= 0 {
		return &s.sess[i].cfg
	}
	return nil
}
func (s *c36Srv) DisposePeer(v *vrf.VRF, ip *bnet.IP) {
	if i := s.find(v, ip); i >= 0 {
		s.sess = append(s.sess[:i], s.sess[i+1:]...)
	}
}
func (s *c36Srv) GetPeers() []bgpserver.PeerKey {
	var r []bgpserver.PeerKey
	for _, x := range s.sess {
		r = append(r, bgpserver.VerifPeerKey(x.cfg.VRF, x.cfg.PeerAddress))
	}
	return r
}
func (s *c36Srv) Metrics() (*metrics.BGPMetrics, error) { return nil, nil }
func (s *c36Srv) GetRIBIn(*vrf.VRF, *bnet.IP, uint16, uint8) *adjRIBIn.AdjRIBIn {
	return nil
}
func (s *c36Srv) GetRIBOut(*vrf.VRF, *bnet.IP, uint16, uint8) *adjRIBOut.AdjRIBOut {
	return nil
}
func (s *c36Srv) ReplaceImportFilterChain(v *vrf.VRF, ip *bnet.IP, c filter.Chain) error {
	i := s.find(v, ip)
	if i < 0 {
		return errors.New("no such peer")
	}
	s.sess[i].imp = c
	return nil
}
func (s *c36Srv) ReplaceExportFilterChain(v *vrf.VRF, ip *bnet.IP, c filter.Chain) error {
	i := s.find(v, ip)
	if i < 0 {
		return errors.New("no such peer")
	}
	s.sess[i].exp = c
	return nil
}
func (s *c36Srv) GetDefaultVRF() *vrf.VRF                   { return s.defVRF }
func (s *c36Srv) SetListenerManager(tcp.ListenerManagerI) {}

// the address literals the configurations use (stands for net.ParseIP)
func c36IPFromString(str string) (bnet.IP, error) {
	switch str {
	case "10.0.0.1":
		return bnet.IPv4FromOctets(10, 0, 0, 1), nil
	case "10.0.0.2":
		return bnet.IPv4FromOctets(10, 0, 0, 2), nil
	case "192.0.2.1":
		return bnet.IPv4FromOctets(192, 0, 2, 1), nil
	case "192.0.2.2":
		return bnet.IPv4FromOctets(192, 0, 2, 2), nil
	case "10.255.0.1":
		return bnet.IPv4FromOctets(10, 255, 0, 1), nil
	case "10.255.0.2":
		return bnet.IPv4FromOctets(10, 255, 0, 2), nil
	case "2001:db8::1":
		return bnet.IPv6(0x20010db800000000, 1), nil
	}
	return bnet.IP{}, errors.New("bad address")
}

var (
	c36ChainA = filter.NewAcceptAllFilterChain()
	c36ChainB = filter.NewDrainFilterChain()
)

func c36Bool(b bool) *bool { return &b }

// c36Pick returns a symbolic choice if field f is selected by the entry's "sym" mask, and 0 otherwise
func c36Pick(f uint, n int) int {
	if vParam("sym")&(1<<f) != 0 {
		return vChoice(n)
	}
	return 0
}

// one generated configuration: a group with inherited settings and up to two neighbors. Field numbers (for "sym"):
// 0 ttl, 1 disabled, 2 hold time, 3 passive, 4 route reflector client, 5 cluster id, 6 IPv4 add-path, 7 IPv6 family,
// 8 import policy, 9 export policy, 10 authentication key, 11 peer AS, 12 local address, 13 neighbor 2 present,
// 14 route server client, 15 IPv4 multiprotocol, 16 next-hop-extended, 17 group-level ttl / hold time, 18 local AS
func c36Config() *config.BGP {
	g := &config.BGPGroup{Name: "g", PeerAS: 65100, LocalAddress: "192.0.2.1"}
	n1 := &config.BGPNeighbor{PeerAddress: "10.0.0.1"}
	n1.TTL = uint8([]int{0, 1, 5}[c36Pick(0, 3)])
	n1.Disabled = c36Pick(1, 2) == 1
	n1.HoldTime = uint16([]int{0, 30, 180}[c36Pick(2, 3)])
	switch c36Pick(3, 3) {
	case 1:
		n1.Passive = c36Bool(true)
	case 2:
		g.Passive = c36Bool(true)
	}
	switch c36Pick(4, 3) {
	case 1:
		n1.RouteReflectorClient = c36Bool(true)
	case 2:
		g.RouteReflectorClient = c36Bool(true)
	}
	switch c36Pick(5, 3) {
	case 1:
		n1.ClusterID = "10.255.0.1"
	case 2:
		g.ClusterID = "10.255.0.2"
	}
	switch c36Pick(6, 7) {
	case 1:
		n1.IPv4 = &config.AddressFamilyConfig{AddPath: &config.AddPathConfig{Receive: true}}
	case 2:
		n1.IPv4 = &config.AddressFamilyConfig{AddPath: &config.AddPathConfig{Send: &config.AddPathSendConfig{Multipath: true, PathCount: 4}}}
	case 3:
		g.IPv4 = &config.AddressFamilyConfig{AddPath: &config.AddPathConfig{Receive: true, Send: &config.AddPathSendConfig{Multipath: true, PathCount: 2}}}
	case 4: // sends one path like best-only does, but negotiates add-path send
		n1.IPv4 = &config.AddressFamilyConfig{AddPath: &config.AddPathConfig{Send: &config.AddPathSendConfig{Multipath: true, PathCount: 1}}}
	case 5: // a path count without multipath
		n1.IPv4 = &config.AddressFamilyConfig{AddPath: &config.AddPathConfig{Send: &config.AddPathSendConfig{PathCount: 4}}}
	case 6: // the group's setting of case 3 overridden by the neighbor's own family section
		g.IPv4 = &config.AddressFamilyConfig{AddPath: &config.AddPathConfig{Receive: true, Send: &config.AddPathSendConfig{Multipath: true, PathCount: 2}}}
		n1.IPv4 = &config.AddressFamilyConfig{AddPath: &config.AddPathConfig{Send: &config.AddPathSendConfig{Multipath: true, PathCount: 1}}}
	}
	if c36Pick(7, 2) == 1 {
		n1.IPv6 = &config.AddressFamilyConfig{}
	}
	if c36Pick(16, 2) == 1 {
		if n1.IPv4 == nil {
			n1.IPv4 = &config.AddressFamilyConfig{}
		}
		n1.IPv4.NextHopExtended = true
	}
	g.ImportFilterChain, g.ExportFilterChain = c36ChainA, c36ChainA
	// 1: the group's policy changes; 2: the neighbor overrides the group's policy by name; 3: both (group rejects,
	// the neighbor's own statement accepts)
	switch c36Pick(8, 4) {
	case 1:
		g.ImportFilterChain = c36ChainB
	case 2:
		n1.Import = []string{"REJECT_ALL"}
	case 3:
		g.ImportFilterChain = c36ChainB
		n1.Import = []string{"ACCEPT_ALL"}
	}
	switch c36Pick(9, 4) {
	case 1:
		g.ExportFilterChain = c36ChainB
	case 2:
		n1.Export = []string{"REJECT_ALL"}
	case 3:
		g.ExportFilterChain = c36ChainB
		n1.Export = []string{"ACCEPT_ALL"}
	}
	switch c36Pick(10, 3) {
	case 1:
		n1.AuthenticationKey = "k1"
	case 2:
		g.AuthenticationKey = "k2"
	}
	if c36Pick(11, 2) == 1 {
		n1.PeerAS = 65200
	}
	if c36Pick(12, 2) == 1 {
		n1.LocalAddress = "192.0.2.2"
	}
	if c36Pick(14, 2) == 1 {
		n1.RouteServerClient = c36Bool(true)
	}
	n1.AdvertiseIPv4MultiProtocol = c36Pick(15, 2) == 1
	switch c36Pick(17, 3) {
	case 1:
		g.TTL = 3
	case 2:
		g.HoldTime = 60
	}
	if c36Pick(18, 2) == 1 {
		n1.LocalAS = 65001
	}
	g.Neighbors = []*config.BGPNeighbor{n1}
	if vParam("sym")&(1<<13) != 0 {
		if ndBool() {
			g.Neighbors = append(g.Neighbors, &config.BGPNeighbor{PeerAddress: "10.0.0.2", PeerAS: 65300})
		}
		if ndBool() {
			g.Neighbors = g.Neighbors[1:] // neighbor 1 is not configured
		}
	}
	cfg := &config.BGP{Groups: []*config.BGPGroup{g}}
	err := config.VerifLoadBGPWith(cfg, 65000, []*filter.Filter{c36ChainA[0], c36ChainB[0]})
	vAssert(err == nil, "C36.config.loads")
	return cfg
}

func c36AFEqual(a, b *bgpserver.AddressFamilyConfig, l string) {
	vAssert((a == nil) == (b == nil), l+".family.present")
	if a == nil || b == nil {
		return
	}
	vAssert(a.AddPathRecv == b.AddPathRecv, l+".addpath.receive")
	vAssert(a.AddPathSend == b.AddPathSend, l+".addpath.send")
	vAssert(a.NextHopExtended == b.NextHopExtended, l+".nexthop.extended")
}

func c36SameChain(a, b filter.Chain) bool {
	if len(a) != len(b) {
		return false
	}
	for i := range a {
		if a[i] != b[i] {
			return false
		}
	}
	return true
}

func VC36_Reload() {
	v := vrf.NewUntrackedVRF("master", 0)
	reg := vrf.NewVRFRegistry()
	reloaded, fresh := &c36Srv{defVRF: v}, &c36Srv{defVRF: v}
	cfgA := c36Config()
	cfgB := c36Config()
	bgpSrv = reloaded
	c1 := &bgpConfigurator{srv: reloaded, vrfReg: reg}
	vAssert(c1.configure(cfgA) == nil, "C36.configure.a")
	if vParam("steps") == 3 {
		// one more configuration in between: A, A', B
		vAssert(c1.configure(c36Config()) == nil, "C36.configure.a2")
	}
	vAssert(c1.configure(cfgB) == nil, "C36.configure.b")
	bgpSrv = fresh
	c2 := &bgpConfigurator{srv: fresh, vrfReg: reg}
	vAssert(c2.configure(cfgB) == nil, "C36.configure.fresh")
	vReach("reloaded")
	vAssert(len(reloaded.sess) == len(fresh.sess), "C36.same.sessions.count")
	for _, f := range fresh.sess {
		i := reloaded.find(f.cfg.VRF, f.cfg.PeerAddress)
		vAssert(i >= 0, "C36.session.missing")
		if i < 0 {
			continue
		}
		r := reloaded.sess[i]
		vAssert(r.cfg.TTL == f.cfg.TTL, "C36.setting.ttl")
		vAssert(r.cfg.AdminEnabled == f.cfg.AdminEnabled, "C36.setting.admin.enabled")
		vAssert(r.cfg.HoldTime == f.cfg.HoldTime && r.cfg.KeepAlive == f.cfg.KeepAlive, "C36.setting.holdtime")
		vAssert(r.cfg.Passive == f.cfg.Passive, "C36.setting.passive")
		vAssert(r.cfg.RouteReflectorClient == f.cfg.RouteReflectorClient, "C36.setting.rr.client")
		vAssert(r.cfg.RouteReflectorClusterID == f.cfg.RouteReflectorClusterID, "C36.setting.cluster.id")
		vAssert(r.cfg.RouteServerClient == f.cfg.RouteServerClient, "C36.setting.rs.client")
		vAssert(r.cfg.AuthenticationKey == f.cfg.AuthenticationKey, "C36.setting.authentication.key")
		vAssert(r.cfg.PeerAS == f.cfg.PeerAS && r.cfg.LocalAS == f.cfg.LocalAS, "C36.setting.as")
		vAssert(*r.cfg.LocalAddress == *f.cfg.LocalAddress, "C36.setting.local.address")
		vAssert(r.cfg.AdvertiseIPv4MultiProtocol == f.cfg.AdvertiseIPv4MultiProtocol, "C36.setting.ipv4.multiprotocol")
		c36AFEqual(r.cfg.IPv4, f.cfg.IPv4, "C36.setting.ipv4")
		c36AFEqual(r.cfg.IPv6, f.cfg.IPv6, "C36.setting.ipv6")
		vAssert(c36SameChain(r.imp, f.imp), "C36.policy.import")
		vAssert(c36SameChain(r.exp, f.exp), "C36.policy.export")
	}
}

func VC36_Twin() {
	cfg := c36Config()
	_ = cfg
	vAssert(false, "C36.twin")
}
