package config

import "github.com/bio-routing/bio-rd/routingtable/filter"

// VerifLoadBGP runs the inheritance / defaulting step of the configuration loader (overlay only)
func VerifLoadBGP(b *BGP, localAS uint32) error { return b.load(localAS, &PolicyOptions{}) }

// VerifLoadBGPWith is VerifLoadBGP with already converted policy statements, so that neighbor-level import / export
// names resolve (overlay only)
func VerifLoadBGPWith(b *BGP, localAS uint32, fs []*filter.Filter) error {
	return b.load(localAS, &PolicyOptions{PolicyStatementsFilter: fs})
}
