package config

// VerifLoadBGP runs the inheritance / defaulting step of the configuration loader (overlay only)
func VerifLoadBGP(b *BGP, localAS uint32) error { return b.load(localAS, &PolicyOptions{}) }
