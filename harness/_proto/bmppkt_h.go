package packet

func ndU8() uint8   { return 0 }
func ndBool() bool  { return false }
func vAssume(c bool)           {}
func vAssert(c bool, l string) {}
func vReach(l string)          {}

func mk(n int) []byte {
	b := make([]byte, n)
	for i := range b {
		b[i] = ndU8()
	}
	return b
}

func dec(n int) {
	data := mk(n)
	m, err := Decode(data)
	vReach("bmp")
	if err == nil {
		vAssert(m != nil, "C27: nil message without error")
	}
}
func VBMP6()  { dec(6) }
func VBMP12() { dec(12) }
func VBMP50() { dec(50) }
