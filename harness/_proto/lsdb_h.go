package server

import (
	bnet "github.com/bio-routing/bio-rd/net"
	"github.com/bio-routing/bio-rd/net/ethernet"
	"github.com/bio-routing/bio-rd/protocols/device"
	"github.com/bio-routing/bio-rd/protocols/isis/packet"
	"github.com/bio-routing/bio-rd/protocols/isis/types"
)

func ndU64() uint64 { return 0 }
func ndU32() uint32 { return 0 }
func ndU16() uint16 { return 0 }
func ndU8() uint8   { return 0 }
func ndBool() bool  { return false }
func vAssume(c bool)           {}
func vAssert(c bool, l string) {}
func vReach(l string)          {}
func vSettle()                 {}

type hDev struct {
	state uint8
	addrs []*bnet.Prefix
}

func (m *hDev) GetIndex() uint64          { return 7 }
func (m *hDev) GetOperState() uint8       { return m.state }
func (m *hDev) GetAddrs() []*bnet.Prefix { return m.addrs }

type hUpd struct{}

func (m *hUpd) Subscribe(c device.Client, d string)   {}
func (m *hUpd) Unsubscribe(c device.Client, d string) {}
func (m *hUpd) Start() error                          { return nil }

func mkLSP(sysLast uint8, seq uint32, life uint16) *packet.LSPDU {
	return &packet.LSPDU{RemainingLifetime: life, LSPID: packet.LSPID{SystemID: types.SystemID{1, 2, 3, 4, 5, sysLast}}, SequenceNumber: seq}
}

// C32: the LSDB keeps, per LSP ID, the copy with the highest sequence number
func VLSDBHighest() {
	own := types.SystemID{1, 2, 3, 4, 5, 6}
	srv, _ := New([]*types.NET{{AreaID: types.AreaID{0x49, 0, 1}, SystemID: own}}, &hUpd{}, 1800)
	srv.SetEthernetInterfaceFactory(ethernet.NewMockEthernetInterfaceFactory())
	srv.AddInterface(&InterfaceConfig{Name: "eth0", PointToPoint: true, Level2: &InterfaceLevelConfig{HelloInterval: 1, HoldingTimer: 3, Metric: 10}})
	ifa := srv.netIfaManager.getInterface("eth0")
	a, b := ndU8(), ndU8()
	s1, s2 := ndU32(), ndU32()
	srv.lsdbL2.processLSP(ifa, mkLSP(a, s1, 1200))
	srv.lsdbL2.processLSP(ifa, mkLSP(b, s2, 1200))
	vReach("lsdb")
	q := ndU8()
	e := srv.lsdbL2._getLSPDU(packet.LSPID{SystemID: types.SystemID{1, 2, 3, 4, 5, q}})
	var want uint32
	present := false
	if a == q {
		want, present = s1, true
	}
	if b == q {
		if !present || s2 > want {
			want = s2
		}
		present = true
	}
	vAssert((e != nil) == present, "C32: entry present iff some LSP with that id was received")
	if e != nil && present {
		vAssert(e.lspdu.SequenceNumber == want, "C32: stored copy has the highest sequence number received")
	}
	// own LSP: a received copy of our own LSP must not survive unchallenged with a higher number than ours
	if a == 6 {
		vAssert(false, "reach: own-id LSP accepted from the network (informational)")
	}
}
