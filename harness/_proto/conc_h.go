package adjRIBOut

import (
	bnet "github.com/bio-routing/bio-rd/net"
	"github.com/bio-routing/bio-rd/protocols/bgp/types"
	"github.com/bio-routing/bio-rd/route"
	"github.com/bio-routing/bio-rd/routingtable"
	"github.com/bio-routing/bio-rd/routingtable/filter"
	"github.com/bio-routing/bio-rd/routingtable/locRIB"
)

func ndU32() uint32 { return 0 }
func ndBool() bool  { return false }
func vAssume(c bool)           {}
func vAssert(c bool, l string) {}
func vReach(l string)          {}
func vShared()                 {}

type world struct {
	rib *locRIB.LocRIB
	aro *AdjRIBOut
	pfx *bnet.Prefix
	p0  *route.Path
}

func mkp(i uint32) *route.Path {
	nh := bnet.IPv4(i)
	src := bnet.IPv4(i)
	return &route.Path{Type: route.BGPPathType, BGPPath: &route.BGPPath{BGPPathA: &route.BGPPathA{NextHop: &nh, Source: &src, EBGP: true, BGPIdentifier: i}, ASPath: types.NewASPath([]uint32{65001}), ASPathLen: 1}}
}

func setup() *world {
	rib := locRIB.New("x")
	peer := bnet.IPv4(0xc0a80001)
	local := bnet.IPv4(0xc0a80002)
	sa := routingtable.SessionAttrs{PeerIP: &peer, LocalIP: &local, Type: route.BGPPathType, IBGP: true, LocalASN: 65000, PeerASN: 65000}
	aro := New(rib, sa, filter.NewAcceptAllFilterChain())
	rib.RegisterWithOptions(aro, routingtable.ClientOptions{BestOnly: true})
	pfx := bnet.NewPfx(bnet.IPv4(0x0a000000), 8).Ptr()
	p0 := mkp(7)
	rib.AddPath(pfx, p0)
	return &world{rib, aro, pfx, p0}
}

// operation A: a route change on the Loc-RIB
func VOpAdd() {
	w := setup()
	p := mkp(9)
	vShared()
	w.rib.AddPath(w.pfx, p)
}

// operation B: an export policy change on the session
func VOpReplace() {
	w := setup()
	c := filter.NewAcceptAllFilterChain()
	vShared()
	w.aro.ReplaceFilterChain(c)
}

// operation C: a reader
func VOpDump() {
	w := setup()
	vShared()
	_ = w.aro.Dump()
	_ = w.rib.Dump()
}
