package server

import (
	"net"
	"time"

	bnet "github.com/bio-routing/bio-rd/net"
	"github.com/bio-routing/bio-rd/protocols/bgp/packet"
	"github.com/bio-routing/bio-rd/routingtable/filter"
	"github.com/bio-routing/bio-rd/routingtable/locRIB"
)

func ndU64() uint64 { return 0 }
func ndU32() uint32 { return 0 }
func ndU16() uint16 { return 0 }
func ndU8() uint8   { return 0 }
func ndBool() bool  { return false }
func vAssume(c bool)           {}
func vAssert(c bool, l string) {}
func vReach(l string)          {}
func vSettle()                 {}
func vAdvance(d time.Duration) {}

type capConn struct {
	net.Conn
	notifCode, notifSub uint8
	notifs              int
	closed              bool
	writes              int
}

func (c *capConn) Write(b []byte) (int, error) {
	c.writes++
	if len(b) >= 21 && b[18] == 3 {
		c.notifs++
		c.notifCode, c.notifSub = b[19], b[20]
	}
	return len(b), nil
}
func (c *capConn) Close() error { c.closed = true; return nil }

func VOpen() {
	localAS := uint32(65000)
	peerAS := uint32(65001)
	p := &peer{
		addr: bnet.IPv4FromOctets(169, 254, 100, 100).Ptr(), localAddr: bnet.IPv4FromOctets(169, 254, 100, 1).Ptr(),
		localASN: localAS, peerASN: peerAS, routerID: 0x01010101, holdTime: 90 * time.Second,
		ipv4: &peerAddressFamily{rib: locRIB.New("inet.0"), importFilterChain: filter.NewAcceptAllFilterChain(), exportFilterChain: filter.NewAcceptAllFilterChain()},
	}
	fsm := newFSM(p)
	p.fsms = append(p.fsms, fsm)
	cc := &capConn{}
	fsm.con = cc
	fsm.connectRetryTimer = time.NewTimer(time.Minute)
	s := newOpenSentState(fsm)
	fsm.state = s
	// symbolic OPEN without optional parameters
	msg := make([]byte, packet.MaxLen)
	for i := 0; i < 16; i++ {
		msg[i] = 0xff
	}
	msg[16], msg[17], msg[18] = 0, 29, packet.OpenMsg
	msg[19] = ndU8()                 // version
	as := ndU16()
	msg[20], msg[21] = uint8(as>>8), uint8(as)
	ht := ndU16()
	msg[22], msg[23] = uint8(ht>>8), uint8(ht)
	id := ndU32()
	msg[24], msg[25], msg[26], msg[27] = uint8(id>>24), uint8(id>>16), uint8(id>>8), uint8(id)
	msg[28] = 0
	next, _ := s.msgReceived(msg, fsm.decodeOptions())
	vReach("open")
	_, toConfirm := next.(*openConfirmState)
	_, toIdle := next.(*idleState)
	valid := msg[19] == 4 && uint32(as) == peerAS && id != 0 && (ht == 0 || ht >= 3)
	if toConfirm {
		vAssert(valid, "C22: OpenConfirm reached only for a valid OPEN")
		want := time.Duration(ht) * time.Second
		if want > p.holdTime {
			want = p.holdTime
		}
		vAssert(fsm.holdTime == want, "C22: hold time is the minimum of both offers")
	}
	if toIdle {
		vAssert(cc.closed, "C22/C23: return to Idle closes the connection")
		vAssert(cc.notifs == 1, "C22: exactly one NOTIFICATION sent on rejection")
	}
	if !valid {
		vAssert(!toConfirm, "C22: invalid OPEN must not be accepted")
	}
}
