package adjRIBOut

import (
	bnet "github.com/bio-routing/bio-rd/net"
	"github.com/bio-routing/bio-rd/protocols/bgp/types"
	"github.com/bio-routing/bio-rd/route"
	"github.com/bio-routing/bio-rd/routingtable"
	"github.com/bio-routing/bio-rd/routingtable/filter"
	"github.com/bio-routing/bio-rd/routingtable/locRIB"
)

func ndU64() uint64 { return 0 }
func ndU32() uint32 { return 0 }
func ndU16() uint16 { return 0 }
func ndU8() uint8   { return 0 }
func ndBool() bool  { return false }
func vAssume(c bool)           {}
func vAssert(c bool, l string) {}
func vReach(l string)          {}

func mkBGP(id uint32) *route.Path {
	nh := bnet.IPv4(id)
	src := bnet.IPv4(id)
	return &route.Path{Type: route.BGPPathType, BGPPath: &route.BGPPath{
		BGPPathA: &route.BGPPathA{
			NextHop: &nh, Source: &src, EBGP: ndBool(),
			LocalPref: ndU32(), MED: ndU32(), BGPIdentifier: id,
		},
		ASPath:    types.NewASPath([]uint32{65001}),
		ASPathLen: 1,
	}}
}

func VWithdraw() {
	rib := locRIB.New("x")
	peer := bnet.IPv4(0xc0a80001)
	local := bnet.IPv4(0xc0a80002)
	ibgp := ndBool()
	sa := routingtable.SessionAttrs{
		PeerIP: &peer, LocalIP: &local, Type: route.BGPPathType,
		IBGP: ibgp, LocalASN: 65000, PeerASN: 65002, RouteReflectorClient: ndBool(),
	}
	aro := New(rib, sa, filter.NewAcceptAllFilterChain())
	rib.RegisterWithOptions(aro, routingtable.ClientOptions{BestOnly: true})
	pfx := bnet.NewPfx(bnet.IPv4(0x0a000000), 8).Ptr()
	p := mkBGP(7)
	rib.AddPath(pfx, p)
	stored := aro.RouteCount()
	rib.RemovePath(pfx, p)
	vReach("aro")
	vAssert(rib.RouteCount() == 0, "locrib empty")
	vAssert(aro.RouteCount() == 0, "C08: Adj-RIB-Out must be empty after the Loc-RIB route is withdrawn")
	_ = stored
}
