package server

import (
	"net"
	"time"

	bnet "github.com/bio-routing/bio-rd/net"
	"github.com/bio-routing/bio-rd/protocols/bgp/packet"
	"github.com/bio-routing/bio-rd/protocols/bgp/types"
	"github.com/bio-routing/bio-rd/route"
	"github.com/bio-routing/bio-rd/routingtable/filter"
	"github.com/bio-routing/bio-rd/routingtable/locRIB"
)

func ndU64() uint64 { return 0 }
func ndU32() uint32 { return 0 }
func ndU16() uint16 { return 0 }
func ndU8() uint8   { return 0 }
func ndBool() bool  { return false }
func vAssume(c bool)           {}
func vAssert(c bool, l string) {}
func vReach(l string)          {}
func vSettle()                 {}
func vAdvance(d time.Duration) {}

type capConn struct {
	net.Conn
	last   int // 1 = announce, 2 = withdraw
	writes int
}

func (c *capConn) Write(b []byte) (int, error) {
	c.writes++
	if b[19] != 0 || b[20] != 0 {
		c.last = 2
	} else {
		c.last = 1
	}
	return len(b), nil
}
func (c *capConn) Close() error { return nil }

func VQueueOrder() {
	fsmA := newFSM(&peer{addr: bnet.IPv4FromOctets(169, 254, 100, 100).Ptr()})
	rib := locRIB.New("inet.0")
	fsmA.ipv4Unicast = newFSMAddressFamily(packet.AFIIPv4, packet.SAFIUnicast, &peerAddressFamily{rib: rib, importFilterChain: filter.NewAcceptAllFilterChain(), exportFilterChain: filter.NewAcceptAllFilterChain()}, fsmA)
	fsmA.state = newEstablishedState(fsmA)
	cc := &capConn{}
	fsmA.con = cc
	u := newUpdateSender(fsmA.ipv4Unicast)
	u.Start(time.Millisecond)
	vSettle()
	pfx := bnet.NewPfx(bnet.IPv4FromOctets(10, 0, 0, 0), 8).Ptr()
	p := &route.Path{Type: route.BGPPathType, BGPPath: &route.BGPPath{BGPPathA: &route.BGPPathA{NextHop: bnet.IPv4(1).Ptr(), Source: bnet.IPv4(2).Ptr(), LocalPref: ndU32()}, ASPath: types.NewASPath([]uint32{65001}), ASPathLen: 1}}
	// schedule: a tick may or may not happen between the add and the remove
	u.AddPath(pfx, p)
	if ndBool() {
		vAdvance(time.Millisecond)
		vSettle()
	}
	u.RemovePath(pfx, p)
	vAdvance(time.Millisecond)
	vSettle()
	vReach("queue")
	vAssert(cc.writes == 2, "two messages written")
	vAssert(cc.writes != 1, "writes!=1")
	vAssert(cc.writes != 3, "writes!=3")
	// Adj-RIB-Out no longer has the route, so the last thing the peer saw for the prefix must be the withdrawal
	vAssert(cc.last == 2, "C10: peer's last message for the prefix must be the withdrawal")
}
