package packet

import "bytes"

func ndU64() uint64 { return 0 }
func ndU32() uint32 { return 0 }
func ndU16() uint16 { return 0 }
func ndU8() uint8   { return 0 }
func ndBool() bool  { return false }
func vAssume(c bool)           {}
func vAssert(c bool, l string) {}
func vReach(l string)          {}

func mk(n int) []byte {
	b := make([]byte, n)
	for i := range b {
		b[i] = ndU8()
	}
	return b
}

func VHeader() {
	data := mk(19)
	hdr, err := decodeHeader(bytes.NewBuffer(data))
	vReach("hdr")
	if err == nil {
		vAssert(hdr.Length >= 19, "hdr.len.lo")
		vAssert(hdr.Length <= 4096, "hdr.len.hi")
		vAssert(hdr.Type >= 1, "hdr.type")
	}
}

func attr(n int) {
	data := mk(n)
	opt := &DecodeOptions{Use32BitASN: ndBool()}
	vAssume(data[1] != 14)
	vAssume(data[1] != 15)
	buf := bytes.NewBuffer(data)
	pa, consumed, err := decodePathAttr(buf, opt)
	vReach("attr")
	if err == nil {
		vAssert(pa != nil, "attr.nonnil")
		vAssert(int(consumed) == n-buf.Len(), "attr.consumed == bytes actually read")
	}
}

func VAttr8()  { attr(8) }
func VAttr12() { attr(12) }
func VAttr16() { attr(16) }

func VNotif() {
	data := mk(2)
	_, _ = decodeNotificationMsg(bytes.NewBuffer(data))
	vReach("notif")
}
