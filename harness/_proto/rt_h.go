package routingtable

import (
	bnet "github.com/bio-routing/bio-rd/net"
	"github.com/bio-routing/bio-rd/route"
)

func ndU64() uint64 { return 0 }
func ndU32() uint32 { return 0 }
func ndU8() uint8   { return 0 }
func ndBool() bool  { return false }
func vAssume(c bool)           {}
func vAssert(c bool, l string) {}
func vReach(l string)          {}

func m32(n uint8) uint32 {
	if n == 0 {
		return 0
	}
	return ^uint32(0) << (32 - n)
}

type rp struct {
	a uint32
	l uint8
}

func mkp() (rp, *bnet.Prefix) {
	a := ndU32()
	l := ndU8()
	vAssume(l <= 32)
	vAssume(a&^m32(l) == 0)
	return rp{a, l}, bnet.NewPfx(bnet.IPv4(a), l).Ptr()
}

func mkpath(nh uint32) *route.Path {
	return &route.Path{Type: route.StaticPathType, StaticPath: &route.StaticPath{NextHop: bnet.IPv4(nh).Ptr()}}
}

func b2i(b bool) int {
	if b {
		return 1
	}
	return 0
}

func runK(k int) {
	rt := NewRoutingTable()
	var ref [4]rp
	for i := 0; i < k; i++ {
		r, p := mkp()
		ref[i] = r
		rt.AddPath(p, mkpath(uint32(i+1)))
	}
	q, qp := mkp()
	got := rt.Get(qp)
	want := 0
	distinct := 0
	for i := 0; i < k; i++ {
		want |= b2i(ref[i].a == q.a) & b2i(ref[i].l == q.l)
		dup := 0
		for j := 0; j < i; j++ {
			dup |= b2i(ref[i].a == ref[j].a) & b2i(ref[i].l == ref[j].l)
		}
		distinct += 1 - dup
	}
	vReach("get")
	vAssert((got != nil) == (want == 1), "C01.get")
	vAssert(rt.GetRouteCount() == int64(distinct), "C01.count")
	// LPM: number of stored prefixes containing-or-equal q
	lpm := rt.LPM(qp)
	cover := 0
	for i := 0; i < k; i++ {
		dup := 0
		for j := 0; j < i; j++ {
			dup |= b2i(ref[i].a == ref[j].a) & b2i(ref[i].l == ref[j].l)
		}
		c := b2i(ref[i].l <= q.l) & b2i(q.a&m32(ref[i].l) == ref[i].a)
		cover += c & (1 - dup)
	}
	vAssert(len(lpm) == cover, "C01.lpm.count")
}

func VTrie2() { runK(2) }
func VTrie3() { runK(3) }
func VTrie4() { runK(4) }
