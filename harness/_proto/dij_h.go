package dijkstra

func ndU64() uint64 { return 0 }
func ndU32() uint32 { return 0 }
func ndU8() uint8   { return 0 }
func ndBool() bool  { return false }
func vAssume(c bool)           {}
func vAssert(c bool, l string) {}
func vReach(l string)          {}

func run(n int) {
	names := []string{"a", "b", "c", "d", "e"}
	nodes := make([]Node, n)
	for i := 0; i < n; i++ {
		nodes[i] = Node{Name: names[i]}
	}
	var edges []Edge
	var has [5][5]bool
	var w [5][5]int64
	for i := 0; i < n; i++ {
		for j := 0; j < n; j++ {
			if i == j {
				continue
			}
			if ndBool() {
				x := int64(ndU8() & 3)
				has[i][j] = true
				w[i][j] = x
				edges = append(edges, Edge{NodeA: nodes[i], NodeB: nodes[j], Distance: x})
			}
		}
	}
	t := NewTopology(nodes, edges)
	spt := t.SPT(nodes[0])
	vReach("spt")
	// certificate: d(src)=0, triangle inequality over existing edges from reached nodes
	vAssert(spt[nodes[0]].Distance == 0, "C35.src")
	for i := 0; i < n; i++ {
		for j := 0; j < n; j++ {
			if has[i][j] {
				di := spt[nodes[i]].Distance
				dj := spt[nodes[j]].Distance
				if di >= 0 {
					vAssert(dj >= 0, "C35.reach: successor of a reached node is reached")
					vAssert(dj <= di+w[i][j], "C35.relaxed: d(v) <= d(u)+w")
				}
			}
		}
	}
}

func VSPT2() { run(2) }
func VSPT3() { run(3) }
