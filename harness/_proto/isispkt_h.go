package packet

import "bytes"

func ndU8() uint8   { return 0 }
func ndBool() bool  { return false }
func vAssume(c bool)           {}
func vAssert(c bool, l string) {}
func vReach(l string)          {}

func mk(n int) []byte {
	b := make([]byte, n)
	for i := range b {
		b[i] = ndU8()
	}
	return b
}

func dec(n int) {
	data := mk(n)
	pkt, err := Decode(bytes.NewBuffer(data))
	vReach("isis")
	if err == nil {
		vAssert(pkt != nil, "C30: nil packet without error")
	}
}
func VDec12() { dec(12) }
func VDec24() { dec(24) }
func VDec32() { dec(32) }

func tlvs(n int) {
	data := mk(n)
	_, _ = readTLVs(bytes.NewBuffer(data))
	vReach("tlvs")
}
func VTLV6()  { tlvs(6) }
func VTLV10() { tlvs(10) }
