package locRIB

import (
	bnet "github.com/bio-routing/bio-rd/net"
	"github.com/bio-routing/bio-rd/route"
	"github.com/bio-routing/bio-rd/routingtable"
	"github.com/bio-routing/bio-rd/routingtable/filter"
)

func ndU64() uint64 { return 0 }
func ndU32() uint32 { return 0 }
func ndU16() uint16 { return 0 }
func ndU8() uint8   { return 0 }
func ndBool() bool  { return false }
func vAssume(c bool)           {}
func vAssert(c bool, l string) {}
func vReach(l string)          {}

type recClient struct {
	have []*route.Path
	n    int
}

func (r *recClient) AddPath(pfx *bnet.Prefix, p *route.Path) error {
	r.have = append(r.have, p)
	return nil
}
func (r *recClient) AddPathInitialDump(pfx *bnet.Prefix, p *route.Path) error {
	r.have = append(r.have, p)
	return nil
}
func (r *recClient) EndOfRIB() {}
func (r *recClient) RemovePath(pfx *bnet.Prefix, p *route.Path) bool {
	for i := range r.have {
		if r.have[i] == p {
			r.have = append(r.have[:i], r.have[i+1:]...)
			return true
		}
	}
	return false
}
func (r *recClient) ReplacePath(*bnet.Prefix, *route.Path, *route.Path) {}
func (r *recClient) RefreshRoute(*bnet.Prefix, []*route.Path)          {}
func (r *recClient) Dispose()                                          {}
func (r *recClient) ReplaceFilterChain(filter.Chain)                   {}

func mkBGP(id uint32) *route.Path {
	nh := bnet.IPv4(id)
	src := bnet.IPv4(id)
	return &route.Path{Type: route.BGPPathType, BGPPath: &route.BGPPath{
		BGPPathA: &route.BGPPathA{
			NextHop: &nh, Source: &src,
			LocalPref: ndU32(), MED: ndU32(), BGPIdentifier: id,
		},
		ASPathLen: ndU16(),
	}}
}

func run(n int, opt routingtable.ClientOptions) {
	rib := New("x")
	c := &recClient{}
	rib.RegisterWithOptions(c, opt)
	pfx := bnet.NewPfx(bnet.IPv4(0x0a000000), 8).Ptr()
	var ps [4]*route.Path
	for i := 0; i < n; i++ {
		ps[i] = mkBGP(uint32(i + 1))
		rib.AddPath(pfx, ps[i])
	}
	// remove the first one again
	rib.RemovePath(pfx, ps[0])
	r := rib.Get(pfx)
	vReach("locrib")
	want := r.Paths()
	k := 1
	if opt.EcmpOnly {
		k = int(r.ECMPPathCount())
	}
	vAssert(len(c.have) == k, "C04.count")
	for i := 0; i < k; i++ {
		found := false
		for j := range c.have {
			if c.have[j] == want[i] {
				found = true
			}
		}
		vAssert(found, "C04.member")
	}
}

func VBest2() { run(2, routingtable.ClientOptions{BestOnly: true}) }
func VBest3() { run(3, routingtable.ClientOptions{BestOnly: true}) }
func VEcmp3() { run(3, routingtable.ClientOptions{EcmpOnly: true}) }
