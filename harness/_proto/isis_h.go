package server

import (
	bnet "github.com/bio-routing/bio-rd/net"
	"github.com/bio-routing/bio-rd/net/ethernet"
	"github.com/bio-routing/bio-rd/protocols/device"
	"github.com/bio-routing/bio-rd/protocols/isis/types"
)

func ndU64() uint64 { return 0 }
func ndU32() uint32 { return 0 }
func ndU16() uint16 { return 0 }
func ndU8() uint8   { return 0 }
func ndBool() bool  { return false }
func vAssume(c bool)           {}
func vAssert(c bool, l string) {}
func vReach(l string)          {}
func vSettle()                 {}
func vChanClosed(c chan struct{}) bool { return false }

type hDev struct {
	state uint8
	addrs []*bnet.Prefix
}

func (m *hDev) GetIndex() uint64          { return 7 }
func (m *hDev) GetOperState() uint8       { return m.state }
func (m *hDev) GetAddrs() []*bnet.Prefix { return m.addrs }

type hUpd struct{}

func (m *hUpd) Subscribe(c device.Client, d string)   {}
func (m *hUpd) Unsubscribe(c device.Client, d string) {}
func (m *hUpd) Start() error                          { return nil }

func updown(n int, passive bool) {
	srv, _ := New([]*types.NET{{AreaID: types.AreaID{0x49, 0, 1}, SystemID: types.SystemID{1, 2, 3, 4, 5, 6}}}, &hUpd{}, 1800)
	srv.SetEthernetInterfaceFactory(ethernet.NewMockEthernetInterfaceFactory())
	srv.SetHostnameFunc(func() (string, error) { return "h", nil })
	cfg := &InterfaceConfig{Name: "eth0", Passive: passive, PointToPoint: true, Level2: &InterfaceLevelConfig{HelloInterval: 1, HoldingTimer: 3, Metric: 10}}
	srv.AddInterface(cfg)
	ifa := srv.netIfaManager.getInterface("eth0")
	addrs := []*bnet.Prefix{bnet.NewPfx(bnet.IPv4(0x0a000001), 24).Ptr()}
	for i := 0; i < n; i++ {
		st := uint8(device.IfOperDown)
		if ndBool() {
			st = device.IfOperUp
		}
		ifa.DeviceUpdate(&hDev{state: st, addrs: addrs})
		vSettle()
	}
	vReach("updown")
}

func VActive2()  { updown(2, false) }
func VActive3()  { updown(3, false) }
func VPassive2() { updown(2, true) }

func VActive4() { updown(4, false) }
