package route

import (
	bnet "github.com/bio-routing/bio-rd/net"
	"github.com/bio-routing/bio-rd/protocols/bgp/types"
)

func ndU64() uint64 { return 0 }
func ndU32() uint32 { return 0 }
func ndU16() uint16 { return 0 }
func ndU8() uint8   { return 0 }
func ndBool() bool  { return false }
func vAssume(c bool)           {}
func vAssert(c bool, l string) {}
func vReach(l string)          {}

func mkBGP() *BGPPath {
	nh := bnet.IPv4(ndU32())
	src := bnet.IPv4(ndU32())
	p := &BGPPath{
		BGPPathA: &BGPPathA{
			NextHop: &nh, Source: &src,
			LocalPref: ndU32(), MED: ndU32(), BGPIdentifier: ndU32(), OriginatorID: ndU32(),
			EBGP: ndBool(), Origin: ndU8(),
		},
		ASPathLen: ndU16(),
	}
	k := ndU8()
	vAssume(k <= 3)
	if k == 1 {
		cl := make(types.ClusterList, 0)
		p.ClusterList = &cl
	} else if k == 2 {
		cl := make(types.ClusterList, 1)
		p.ClusterList = &cl
	} else if k == 3 {
		cl := make(types.ClusterList, 2)
		p.ClusterList = &cl
	}
	return p
}

func VAntisym() {
	a, b := mkBGP(), mkBGP()
	x := a.Select(b)
	y := b.Select(a)
	vReach("antisym")
	vAssert(x == -y, "C02.antisym")
}

func VTrans() {
	a, b, c := mkBGP(), mkBGP(), mkBGP()
	ab := a.Select(b)
	bc := b.Select(c)
	ac := a.Select(c)
	vReach("trans")
	if ab >= 0 {
		if bc >= 0 {
			vAssert(ac >= 0, "C02.trans")
		}
	}
}

// RFC direction for identifier step: all earlier equal => lower identifier preferred
func VIdStep() {
	a, b := mkBGP(), mkBGP()
	vAssume(a.BGPPathA.LocalPref == b.BGPPathA.LocalPref)
	vAssume(a.ASPathLen == b.ASPathLen)
	vAssume(a.BGPPathA.Origin == b.BGPPathA.Origin)
	vAssume(a.BGPPathA.MED == b.BGPPathA.MED)
	vAssume(a.BGPPathA.EBGP == b.BGPPathA.EBGP)
	vAssume(a.BGPPathA.OriginatorID == 0)
	vAssume(b.BGPPathA.OriginatorID == 0)
	vAssume(a.BGPPathA.BGPIdentifier < b.BGPPathA.BGPIdentifier)
	vReach("idstep")
	vAssert(a.Select(b) > 0, "C03.idstep lower identifier must win")
}
