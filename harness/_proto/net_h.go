package net

func ndU64() uint64 { return 0 }
func ndU32() uint32 { return 0 }
func ndU8() uint8   { return 0 }
func ndBool() bool  { return false }
func vAssume(c bool)            {}
func vAssert(c bool, l string)  {}
func vReach(l string)           {}

// ---- reference definitions on raw words ----
func refMask64(n uint8) uint64 { // top n bits of 64, n in 0..64
	if n == 0 {
		return 0
	}
	return ^uint64(0) << (64 - n)
}
func refTopEq6(ah, al, bh, bl uint64, n uint8) bool { // top n bits (0..128) equal
	if n <= 64 {
		m := refMask64(n)
		return ah&m == bh&m
	}
	m := refMask64(n - 64)
	return ah == bh && al&m == bl&m
}
func refMask32(n uint8) uint32 {
	if n == 0 {
		return 0
	}
	return ^uint32(0) << (32 - n)
}

func VContains6() {
	p := NewPfx(IPv6(ndU64(), ndU64()), ndU8())
	q := NewPfx(IPv6(ndU64(), ndU64()), ndU8())
	vAssume(p.len <= 128)
	vAssume(q.len <= 128)
	got := p.Contains(&q)
	want := q.len > p.len && refTopEq6(p.addr.higher, p.addr.lower, q.addr.higher, q.addr.lower, p.len)
	vReach("contains6")
	vAssert(got == want, "C15.contains6")
}

func VContains4() {
	p := NewPfx(IPv4(ndU32()), ndU8())
	q := NewPfx(IPv4(ndU32()), ndU8())
	vAssume(p.len <= 32)
	vAssume(q.len <= 32)
	got := p.Contains(&q)
	m := refMask32(p.len)
	want := q.len > p.len && uint32(p.addr.lower)&m == uint32(q.addr.lower)&m
	vReach("contains4")
	vAssert(got == want, "C15.contains4")
}

func VBitAt6() {
	a := IPv6(ndU64(), ndU64())
	pos := ndU8()
	vAssume(pos >= 1)
	vAssume(pos <= 128)
	got := a.BitAtPosition(pos)
	var want bool
	if pos <= 64 {
		want = (a.higher>>(64-pos))&1 == 1
	} else {
		want = (a.lower>>(128-pos))&1 == 1
	}
	vAssert(got == want, "C15.bitat6")
}

func VSupernet6() {
	p := NewPfx(IPv6(ndU64(), ndU64()), ndU8())
	q := NewPfx(IPv6(ndU64(), ndU64()), ndU8())
	vAssume(p.len <= 128)
	vAssume(q.len <= 128)
	// canonical
	vAssume(refCanon6(p.addr.higher, p.addr.lower, p.len))
	vAssume(refCanon6(q.addr.higher, q.addr.lower, q.len))
	// neither contains or equals the other (bit-level)
	ml := p.len
	if q.len < ml {
		ml = q.len
	}
	vAssume(!refTopEq6(p.addr.higher, p.addr.lower, q.addr.higher, q.addr.lower, ml))
	s := p.GetSupernet(&q)
	vReach("supernet6")
	// postconditions
	vAssert(s.len < ml, "C15.super6.len")
	vAssert(refTopEq6(p.addr.higher, p.addr.lower, q.addr.higher, q.addr.lower, s.len), "C15.super6.common")
	vAssert(!refTopEq6(p.addr.higher, p.addr.lower, q.addr.higher, q.addr.lower, s.len+1), "C15.super6.maximal")
	vAssert(refTopEq6(p.addr.higher, p.addr.lower, s.addr.higher, s.addr.lower, s.len), "C15.super6.addr")
	vAssert(refCanon6(s.addr.higher, s.addr.lower, s.len), "C15.super6.canon")
}

func refCanon6(h, l uint64, n uint8) bool {
	if n <= 64 {
		return l == 0 && h&^refMask64(n) == 0
	}
	return l&^refMask64(n-64) == 0
}

func VSupernet4() {
	p := NewPfx(IPv4(ndU32()), ndU8())
	q := NewPfx(IPv4(ndU32()), ndU8())
	vAssume(p.len <= 32)
	vAssume(q.len <= 32)
	ml := p.len
	if q.len < ml {
		ml = q.len
	}
	a, b := uint32(p.addr.lower), uint32(q.addr.lower)
	vAssume(a&^refMask32(p.len) == 0)
	vAssume(b&^refMask32(q.len) == 0)
	vAssume(a&refMask32(ml) != b&refMask32(ml))
	s := p.GetSupernet(&q)
	vReach("supernet4")
	sa := uint32(s.addr.lower)
	vAssert(s.len < ml, "C15.super4.len")
	vAssert(a&refMask32(s.len) == b&refMask32(s.len), "C15.super4.common")
	vAssert(a&refMask32(s.len+1) != b&refMask32(s.len+1), "C15.super4.maximal")
	vAssert(sa == a&refMask32(s.len), "C15.super4.addr")
}
