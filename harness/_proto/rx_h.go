package server

import (
	"io"
	"net"
	"time"

	bnet "github.com/bio-routing/bio-rd/net"
	"github.com/bio-routing/bio-rd/routingtable/filter"
	"github.com/bio-routing/bio-rd/routingtable/locRIB"
)

func ndU64() uint64 { return 0 }
func ndU32() uint32 { return 0 }
func ndU16() uint16 { return 0 }
func ndU8() uint8   { return 0 }
func ndBool() bool  { return false }
func vAssume(c bool)           {}
func vAssert(c bool, l string) {}
func vReach(l string)          {}
func vSettle()                 {}
func vAdvance(d time.Duration) {}

type chConn struct {
	net.Conn
	in      chan []byte
	pending []byte
	closed  bool
	writes  int
}

func (c *chConn) Read(b []byte) (int, error) {
	if len(c.pending) == 0 {
		d, ok := <-c.in
		if !ok {
			return 0, io.EOF
		}
		c.pending = d
	}
	n := copy(b, c.pending)
	c.pending = c.pending[n:]
	return n, nil
}
func (c *chConn) Write(b []byte) (int, error) { c.writes++; return len(b), nil }
func (c *chConn) Close() error                { c.closed = true; return nil }

func VFraming() {
	p := &peer{
		addr: bnet.IPv4FromOctets(169, 254, 100, 100).Ptr(), localAddr: bnet.IPv4FromOctets(169, 254, 100, 1).Ptr(),
		localASN: 65000, peerASN: 65001, routerID: 0x01010101, holdTime: 90 * time.Second,
		ipv4: &peerAddressFamily{rib: locRIB.New("inet.0"), importFilterChain: filter.NewAcceptAllFilterChain(), exportFilterChain: filter.NewAcceptAllFilterChain()},
	}
	fsm := newFSM(p)
	p.fsms = append(p.fsms, fsm)
	cc := &chConn{in: make(chan []byte, 4)}
	fsm.con = cc
	fsm.connectRetryTimer = time.NewTimer(time.Minute)
	fsm.state = newOpenSentState(fsm)
	go fsm.run()
	vSettle()
	hdr := make([]byte, 19)
	for i := 0; i < 16; i++ {
		hdr[i] = 0xff
	}
	l := ndU16()
	hdr[16], hdr[17], hdr[18] = uint8(l>>8), uint8(l), ndU8()
	cc.in <- hdr
	vSettle()
	vReach("framing")
}
