package server

import (
	"io"
	"net"
	"time"

	bnet "github.com/bio-routing/bio-rd/net"
	"github.com/bio-routing/bio-rd/protocols/bgp/packet"
	"github.com/bio-routing/bio-rd/routingtable/filter"
	"github.com/bio-routing/bio-rd/routingtable/vrf"
)

func ndU64() uint64 { return 0 }
func ndU32() uint32 { return 0 }
func ndU16() uint16 { return 0 }
func ndU8() uint8   { return 0 }
func ndBool() bool  { return false }
func vAssume(c bool)           {}
func vAssert(c bool, l string) {}
func vReach(l string)          {}
func vSettle()                 {}
func vAdvance(d time.Duration) {}

type capConn struct {
	net.Conn
	notifs int
	closed bool
	writes int
	block  chan struct{}
}

func (c *capConn) Read(b []byte) (int, error) {
	<-c.block
	return 0, io.EOF
}

func (c *capConn) Write(b []byte) (int, error) {
	c.writes++
	if len(b) >= 21 && b[18] == 3 {
		c.notifs++
	}
	return len(b), nil
}
func (c *capConn) Close() error { c.closed = true; return nil }

func openMsg(id uint32) []byte {
	msg := make([]byte, packet.MaxLen)
	for i := 0; i < 16; i++ {
		msg[i] = 0xff
	}
	msg[16], msg[17], msg[18] = 0, 29, packet.OpenMsg
	msg[19] = 4
	msg[20], msg[21] = uint8(65001>>8), uint8(65001&0xff)
	msg[22], msg[23] = 0, 90
	msg[24], msg[25], msg[26], msg[27] = uint8(id>>24), uint8(id>>16), uint8(id>>8), uint8(id)
	return msg
}
func keepalive() []byte {
	msg := make([]byte, packet.MaxLen)
	for i := 0; i < 16; i++ {
		msg[i] = 0xff
	}
	msg[16], msg[17], msg[18] = 0, 19, packet.KeepaliveMsg
	return msg
}

func established(f *FSM) bool {
	f.stateMu.RLock()
	defer f.stateMu.RUnlock()
	_, ok := f.state.(*establishedState)
	return ok
}

func VCollision() {
	v := vrf.NewUntrackedVRF("main", 0)
	rib, _ := v.CreateIPv4UnicastLocRIB("inet.0")
	p := &peer{
		addr: bnet.IPv4FromOctets(169, 254, 100, 100).Ptr(), localAddr: bnet.IPv4FromOctets(169, 254, 100, 1).Ptr(),
		localASN: 65000, peerASN: 65001, routerID: 0x01010101, holdTime: 90 * time.Second, vrf: v,
		adjRIBInFactory: adjRIBInFactory{},
		ipv4:            &peerAddressFamily{rib: rib, importFilterChain: filter.NewAcceptAllFilterChain(), exportFilterChain: filter.NewAcceptAllFilterChain()},
	}
	id := ndU32()
	vAssume(id != 0)
	mk := func() (*FSM, *capConn) {
		f := newFSM(p)
		c := &capConn{block: make(chan struct{})}
		f.con = c
		f.connectRetryTimer = time.NewTimer(time.Minute)
		f.state = newOpenSentState(f)
		p.fsms = append(p.fsms, f)
		return f, c
	}
	fa, ca := mk()
	fb, cb := mk()
	go fa.run()
	go fb.run()
	vSettle()
	// both connections receive the peer's OPEN and then its KEEPALIVE
	fa.msgRecvCh <- openMsg(id)
	vSettle()
	fb.msgRecvCh <- openMsg(id)
	vSettle()
	fa.msgRecvCh <- keepalive()
	vSettle()
	fb.msgRecvCh <- keepalive()
	vSettle()
	vReach("collision")
	ea, eb := established(fa), established(fb)
	vAssert(!(ea && eb), "C24: at most one of a peer's connections may be Established")
	_, _ = ca, cb
}
