package filter

import (
	bnet "github.com/bio-routing/bio-rd/net"
	"github.com/bio-routing/bio-rd/route"
	"github.com/bio-routing/bio-rd/routingtable/filter/actions"
)

func ndU64() uint64 { return 0 }
func ndU32() uint32 { return 0 }
func ndU16() uint16 { return 0 }
func ndU8() uint8   { return 0 }
func ndBool() bool  { return false }
func vAssume(c bool)           {}
func vAssert(c bool, l string) {}
func vReach(l string)          {}

func m32(n uint8) uint32 {
	if n == 0 {
		return 0
	}
	return ^uint32(0) << (32 - n)
}

func mkPath() *route.Path {
	nh := bnet.IPv4(1)
	src := bnet.IPv4(2)
	return &route.Path{Type: route.BGPPathType, BGPPath: &route.BGPPath{BGPPathA: &route.BGPPathA{NextHop: &nh, Source: &src, LocalPref: ndU32()}}}
}

// one filter, one term: "from route-filter <pat> orlonger then local-pref X; accept", else default (accept at end of chain)
func chain(pa uint32, pl uint8, lp uint32) Chain {
	pat := bnet.NewPfx(bnet.IPv4(pa), pl).Ptr()
	return Chain{NewFilter("f", []*Term{
		NewTerm("t", []*TermCondition{NewTermConditionWithRouteFilters(NewRouteFilter(pat, NewOrLongerMatcher()))},
			[]actions.Action{actions.NewSetLocalPrefAction(lp), actions.NewAcceptAction()}),
		NewTerm("rej", nil, []actions.Action{actions.NewRejectAction()}),
	})}
}

func VProcess() {
	pa, pl := ndU32(), ndU8()
	vAssume(pl <= 32)
	vAssume(pa&^m32(pl) == 0)
	lp := ndU32()
	c := chain(pa, pl, lp)
	qa, ql := ndU32(), ndU8()
	vAssume(ql <= 32)
	vAssume(qa&^m32(ql) == 0)
	p := mkPath()
	orig := p.BGPPath.BGPPathA.LocalPref
	out, reject := c.Process(bnet.NewPfx(bnet.IPv4(qa), ql).Ptr(), p)
	vReach("process")
	match := ql >= pl && qa&m32(pl) == pa
	vAssert(reject == !match, "C14: accepted iff the route filter matches (orlonger)")
	if match {
		vAssert(out.BGPPath.BGPPathA.LocalPref == lp, "C14: accepted path carries the configured LOCAL_PREF")
	}
	vAssert(p.BGPPath.BGPPathA.LocalPref == orig, "C13: input path not modified")
}

func VEqual() {
	pa, pl := ndU32(), ndU8()
	vAssume(pl <= 32)
	pat := bnet.NewPfx(bnet.IPv4(pa), pl).Ptr()
	lp1, lp2 := ndU32(), ndU32()
	mk := func(lp uint32) Chain {
		return Chain{NewFilter("f", []*Term{NewTerm("t", []*TermCondition{NewTermConditionWithRouteFilters(NewRouteFilter(pat, NewOrLongerMatcher()))},
			[]actions.Action{actions.NewSetLocalPrefAction(lp), actions.NewAcceptAction()})})}
	}
	c, d := mk(lp1), mk(lp2)
	vReach("equal")
	if c.Equal(d) {
		p := mkPath()
		q := bnet.NewPfx(bnet.IPv4(pa), pl).Ptr()
		o1, r1 := c.Process(q, p)
		o2, r2 := d.Process(q, p)
		vAssert(r1 == r2, "C14: equal chains agree on accept/reject")
		vAssert(o1.BGPPath.BGPPathA.LocalPref == o2.BGPPath.BGPPathA.LocalPref, "C14: chains that compare Equal must produce the same LOCAL_PREF")
	}
}
