package packet

import (
	"bytes"

	"github.com/bio-routing/bio-rd/protocols/bgp/types"
)

func ndU64() uint64 { return 0 }
func ndU32() uint32 { return 0 }
func ndU16() uint16 { return 0 }
func ndU8() uint8   { return 0 }
func ndBool() bool  { return false }
func vAssume(c bool)           {}
func vAssert(c bool, l string) {}
func vReach(l string)          {}

func aspath(n int) {
	asns := make([]uint32, n)
	for i := range asns {
		asns[i] = ndU32()
	}
	ap := types.ASPath{{Type: types.ASSequence, ASNs: asns}}
	pa := &PathAttribute{TypeCode: ASPathAttr, Value: &ap}
	buf := bytes.NewBuffer(nil)
	l := pa.Serialize(buf, &EncodeOptions{Use32BitASN: true})
	out := buf.Bytes()
	vReach("ser")
	vAssert(int(l) == len(out), "C17: returned attribute length equals bytes written")
	got, _, err := decodePathAttr(bytes.NewBuffer(out), &DecodeOptions{Use32BitASN: true})
	vAssert(err == nil, "C17: serialized AS_PATH decodes")
	if err == nil {
		gp := got.Value.(*types.ASPath)
		vAssert(len(*gp) == 1, "C17: one segment")
		if len(*gp) == 1 {
			vAssert(len((*gp)[0].ASNs) == n, "C17: same number of ASNs")
			if len((*gp)[0].ASNs) == n {
				same := true
				for i := 0; i < n; i++ {
					if (*gp)[0].ASNs[i] != asns[i] {
						same = false
					}
				}
				vAssert(same, "C17: same ASNs")
			}
		}
	}
}

func VAS3()   { aspath(3) }
func VAS63()  { aspath(63) }
func VAS64()  { aspath(64) }
func VAS255() { aspath(255) }
func VAS256() { aspath(256) }

func comms(n int) {
	cs := make(types.Communities, n)
	for i := range cs {
		cs[i] = ndU32()
	}
	pa := &PathAttribute{TypeCode: CommunitiesAttr, Value: &cs}
	buf := bytes.NewBuffer(nil)
	l := pa.Serialize(buf, &EncodeOptions{})
	out := buf.Bytes()
	vReach("ser")
	vAssert(int(l) == len(out), "C17: returned communities attribute length equals bytes written")
	got, _, err := decodePathAttr(bytes.NewBuffer(out), &DecodeOptions{})
	vAssert(err == nil, "C17: serialized COMMUNITIES decodes")
	if err == nil {
		gc := got.Value.(*types.Communities)
		vAssert(len(*gc) == n, "C17: same number of communities")
	}
}

func VCom63() { comms(63) }
func VCom64() { comms(64) }
