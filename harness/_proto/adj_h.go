package server

import (
	"time"

	bnet "github.com/bio-routing/bio-rd/net"
	"github.com/bio-routing/bio-rd/net/ethernet"
	"github.com/bio-routing/bio-rd/protocols/device"
	"github.com/bio-routing/bio-rd/protocols/isis/packet"
	"github.com/bio-routing/bio-rd/protocols/isis/types"
)

func ndU64() uint64 { return 0 }
func ndU32() uint32 { return 0 }
func ndU16() uint16 { return 0 }
func ndU8() uint8   { return 0 }
func ndBool() bool  { return false }
func vAssume(c bool)           {}
func vAssert(c bool, l string) {}
func vReach(l string)          {}
func vSettle()                 {}
func vAdvance(d time.Duration) {}

type hDev struct {
	state uint8
	addrs []*bnet.Prefix
}

func (m *hDev) GetIndex() uint64          { return 7 }
func (m *hDev) GetOperState() uint8       { return m.state }
func (m *hDev) GetAddrs() []*bnet.Prefix { return m.addrs }

type hUpd struct{}

func (m *hUpd) Subscribe(c device.Client, d string)   {}
func (m *hUpd) Unsubscribe(c device.Client, d string) {}
func (m *hUpd) Start() error                          { return nil }

var own = types.SystemID{1, 2, 3, 4, 5, 6}

func hello(hold uint16, listsUs bool, circuit uint32) *packet.P2PHello {
	adj := &packet.P2PAdjacencyStateTLV{TLVType: packet.P2PAdjacencyStateTLVType, TLVLength: packet.P2PAdjacencyStateTLVLenWithoutNeighbor, AdjacencyState: packet.P2PAdjStateInit, ExtendedLocalCircuitID: 99}
	if listsUs {
		adj.TLVLength = packet.P2PAdjacencyStateTLVLenWithNeighbor
		adj.NeighborSystemID = own
		adj.NeighborExtendedLocalCircuitID = circuit
	}
	return &packet.P2PHello{
		CircuitType: 2, SystemID: types.SystemID{9, 9, 9, 9, 9, 9}, HoldingTimer: hold, LocalCircuitID: 1,
		TLVs: []packet.TLV{
			adj,
			&packet.ProtocolsSupportedTLV{TLVType: packet.ProtocolsSupportedTLVType, TLVLength: 2, NetworkLayerProtocolIDs: []uint8{packet.NLPIDIPv4, packet.NLPIDIPv6}},
			packet.NewIPInterfaceAddressesTLV([]*bnet.Prefix{bnet.NewPfx(bnet.IPv4(0x0a000002), 24).Ptr()}),
			packet.NewAreaAddressesTLV([]types.AreaID{{0x49, 0, 1}}),
		},
	}
}

func adjState(srv *Server) (found bool, st uint8) {
	for _, a := range srv.GetAdjacencies() {
		return true, a.Status
	}
	return false, 0
}

func VAdj() {
	srv, _ := New([]*types.NET{{AreaID: types.AreaID{0x49, 0, 1}, SystemID: own}}, &hUpd{}, 1800)
	srv.SetEthernetInterfaceFactory(ethernet.NewMockEthernetInterfaceFactory())
	srv.SetHostnameFunc(func() (string, error) { return "h", nil })
	srv.AddInterface(&InterfaceConfig{Name: "eth0", PointToPoint: true, Level2: &InterfaceLevelConfig{HelloInterval: 1, HoldingTimer: 3, Metric: 10}})
	ifa := srv.netIfaManager.getInterface("eth0")
	ifa.DeviceUpdate(&hDev{state: device.IfOperUp, addrs: []*bnet.Prefix{bnet.NewPfx(bnet.IPv4(0x0a000001), 24).Ptr()}})
	vSettle()
	src := ethernet.MACAddr{0, 1, 2, 3, 4, 5}
	hold := ndU16()
	vAssume(hold >= 1)
	vAssume(hold <= 100)
	circuit := ndU32()
	lists := ndBool()
	// first hello only creates the neighbour; second one is evaluated
	ifa.processP2PHello(src, hello(hold, lists, circuit))
	vSettle()
	ifa.processP2PHello(src, hello(hold, lists, circuit))
	vSettle()
	found, st := adjState(srv)
	vReach("adj")
	vAssert(found, "C31: neighbour known after two hellos")
	up := found && st == packet.P2PAdjStateUp
	vAssert(up == (lists && circuit == 7), "C31: Up exactly when the hello lists this system and circuit")
	// silence: holding time passes, checker ticks
	vAdvance(101 * time.Second)
	vSettle()
	vAdvance(time.Second)
	vSettle()
	_, st2 := adjState(srv)
	if up {
		vAssert(st2 == packet.P2PAdjStateDown, "C31: an Up adjacency goes Down once the holding time passed")
	}
	// long silence: the neighbour must disappear whether or not it ever came up
	vAdvance(200 * time.Second)
	vSettle()
	vAdvance(time.Second)
	vSettle()
	found3, _ := adjState(srv)
	vAssert(!found3, "C31: a silent neighbour disappears eventually, whether or not it ever came Up")
}
