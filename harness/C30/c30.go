package packet

import (
	"bytes"

	bnet "github.com/bio-routing/bio-rd/net"
	"github.com/bio-routing/bio-rd/protocols/isis/types"
)

// C30 — IS-IS PDU decoding is total (arbitrary buffers, no panic) and Serialize -> Decode round-trips.

func VC30_ReadTLV() {
	data := ndBytes(vParam("n"))
	if t := vParam("type"); t >= 0 {
		vAssume(data[0] == uint8(t))
	} else if t == -2 { // any type without a dedicated reader
		for _, k := range []uint8{1, 6, 9, 12, 129, 132, 137, 240} {
			vAssume(data[0] != k)
		}
	}
	tlv, err := readTLV(bytes.NewBuffer(data))
	vReach("unit")
	vAssert(vImplies(err == nil, tlv != nil), "C30.tlv.nonnil")
}

func VC30_ReadTLVs() {
	data := ndBytes(vParam("n"))
	_, _ = readTLVs(bytes.NewBuffer(data))
	vReach("unit")
}

func VC30_Header() {
	data := ndBytes(vParam("n"))
	_, _ = DecodeHeader(bytes.NewBuffer(data))
	vReach("unit")
}

func VC30_Hello() {
	data := ndBytes(vParam("n"))
	_, _ = DecodeP2PHello(bytes.NewBuffer(data))
	vReach("unit")
}

func VC30_L2Hello() {
	data := ndBytes(vParam("n"))
	_, _ = DecodeL2Hello(bytes.NewBuffer(data))
	vReach("unit")
}

func VC30_LSP() {
	data := ndBytes(vParam("n"))
	_, _ = DecodeLSPDU(bytes.NewBuffer(data))
	vReach("unit")
}

func VC30_CSNP() {
	data := ndBytes(vParam("n"))
	_, _ = DecodeCSNP(bytes.NewBuffer(data))
	vReach("unit")
}

func VC30_PSNP() {
	data := ndBytes(vParam("n"))
	_, _ = DecodePSNP(bytes.NewBuffer(data))
	vReach("unit")
}

func VC30_LSPEntry() {
	data := ndBytes(vParam("n"))
	_, _ = decodeLSPEntry(bytes.NewBuffer(data))
	vReach("unit")
}

func VC30_Decode() {
	data := ndBytes(vParam("n"))
	if t := vParam("type"); t >= 0 {
		vAssume(data[4] == uint8(t))
	}
	pkt, err := Decode(bytes.NewBuffer(data))
	vReach("decode")
	vAssert(vImplies(err != nil, pkt == nil), "C30.decode.nilOnError")
}

// ---- round trips

func c30SysID() types.SystemID {
	return types.SystemID{ndU8(), ndU8(), ndU8(), ndU8(), ndU8(), ndU8()}
}

func c30LSPID() LSPID {
	return LSPID{SystemID: c30SysID(), PseudonodeID: ndU8(), LSPNumber: ndU8()}
}

func c30Entry() *LSPEntry {
	return &LSPEntry{RemainingLifetime: ndU16(), LSPID: c30LSPID(), SequenceNumber: ndU32(), LSPChecksum: ndU16()}
}

func c30EntriesTLV(n int) *LSPEntriesTLV {
	es := make([]*LSPEntry, n)
	for i := range es {
		es[i] = c30Entry()
	}
	return NewLSPEntriesTLV(es)
}

func c30Header(t uint8) *ISISHeader {
	return &ISISHeader{ProtoDiscriminator: 0x83, LengthIndicator: ndU8(), ProtocolIDExtension: 1, IDLength: 0, PDUType: t, Version: 1, MaxAreaAddresses: 0}
}

func VC30_RoundTripHello() {
	h := &P2PHello{CircuitType: ndU8(), SystemID: c30SysID(), HoldingTimer: ndU16(), PDULength: ndU16(), LocalCircuitID: ndU8()}
	adj := NewP2PAdjacencyStateTLV(ndU8(), ndU32())
	withNeighbor := ndBool()
	if withNeighbor {
		adj.TLVLength = P2PAdjacencyStateTLVLenWithNeighbor
		adj.NeighborSystemID = c30SysID()
		adj.NeighborExtendedLocalCircuitID = ndU32()
	}
	ps := NewProtocolsSupportedTLV([]uint8{ndU8(), ndU8()})
	aa := NewAreaAddressesTLV([]types.AreaID{{ndU8(), ndU8(), ndU8()}})
	h.TLVs = []TLV{adj, ps, aa}
	buf := bytes.NewBuffer(nil)
	h.Serialize(buf)
	d, err := DecodeP2PHello(buf)
	vReach("roundtrip")
	vAssert(err == nil, "C30.rt.hello.decodes")
	if err != nil {
		return
	}
	vAssert(d.CircuitType == h.CircuitType, "C30.rt.hello.circuittype")
	vAssert(d.SystemID == h.SystemID, "C30.rt.hello.systemid")
	vAssert(d.HoldingTimer == h.HoldingTimer, "C30.rt.hello.holdingtimer")
	vAssert(d.PDULength == h.PDULength, "C30.rt.hello.pdulength")
	vAssert(d.LocalCircuitID == h.LocalCircuitID, "C30.rt.hello.circuitid")
	vAssert(len(d.TLVs) == 3, "C30.rt.hello.tlvcount")
	if len(d.TLVs) != 3 {
		return
	}
	a2 := d.GetP2PAdjTLV()
	vAssert(a2 != nil, "C30.rt.hello.adj.present")
	if a2 != nil {
		vAssert(a2.AdjacencyState == adj.AdjacencyState, "C30.rt.hello.adj.state")
		vAssert(a2.ExtendedLocalCircuitID == adj.ExtendedLocalCircuitID, "C30.rt.hello.adj.circuit")
		vAssert(a2.TLVLength == adj.TLVLength, "C30.rt.hello.adj.len")
		if withNeighbor {
			vAssert(a2.NeighborSystemID == adj.NeighborSystemID, "C30.rt.hello.adj.neighbor")
			vAssert(a2.NeighborExtendedLocalCircuitID == adj.NeighborExtendedLocalCircuitID, "C30.rt.hello.adj.neighborcircuit")
		}
	}
	p2 := d.GetProtocolsSupportedTLV()
	vAssert(p2 != nil, "C30.rt.hello.protos.present")
	if p2 != nil {
		vAssert(len(p2.NetworkLayerProtocolIDs) == 2, "C30.rt.hello.protos.len")
		if len(p2.NetworkLayerProtocolIDs) == 2 {
			vAssert(p2.NetworkLayerProtocolIDs[0] == ps.NetworkLayerProtocolIDs[0], "C30.rt.hello.protos.0")
			vAssert(p2.NetworkLayerProtocolIDs[1] == ps.NetworkLayerProtocolIDs[1], "C30.rt.hello.protos.1")
		}
	}
	ar := d.GetAreaAddressesTLV()
	vAssert(ar != nil, "C30.rt.hello.areas.present")
	if ar != nil {
		vAssert(len(ar.AreaIDs) == 1, "C30.rt.hello.areas.len")
		if len(ar.AreaIDs) == 1 {
			vAssert(len(ar.AreaIDs[0]) == 3, "C30.rt.hello.areas.idlen")
			if len(ar.AreaIDs[0]) == 3 {
				vAssert(ar.AreaIDs[0][0] == aa.AreaIDs[0][0], "C30.rt.hello.areas.b0")
				vAssert(ar.AreaIDs[0][2] == aa.AreaIDs[0][2], "C30.rt.hello.areas.b2")
			}
		}
	}
}

func c30CmpEntry(a, b *LSPEntry, tag string) {
	vAssert(a.RemainingLifetime == b.RemainingLifetime, "C30.rt."+tag+".entry.lifetime")
	vAssert(a.LSPID == b.LSPID, "C30.rt."+tag+".entry.lspid")
	vAssert(a.SequenceNumber == b.SequenceNumber, "C30.rt."+tag+".entry.seq")
	vAssert(a.LSPChecksum == b.LSPChecksum, "C30.rt."+tag+".entry.checksum")
}

func c30FindEntries(tlvs []TLV) *LSPEntriesTLV {
	for _, t := range tlvs {
		if t.Type() == LSPEntriesTLVType {
			if e, ok := t.(*LSPEntriesTLV); ok {
				return e
			}
		}
	}
	return nil
}

func VC30_RoundTripCSNP() {
	n := vParam("entries")
	et := c30EntriesTLV(n)
	c := &CSNP{PDULength: ndU16(), SourceID: types.SourceID{SystemID: c30SysID(), CircuitID: ndU8()}, StartLSPID: c30LSPID(), EndLSPID: c30LSPID(), TLVs: []TLV{et}}
	buf := bytes.NewBuffer(nil)
	c.Serialize(buf)
	d, err := DecodeCSNP(buf)
	vReach("roundtrip")
	vAssert(err == nil, "C30.rt.csnp.decodes")
	if err != nil {
		return
	}
	vAssert(d.PDULength == c.PDULength, "C30.rt.csnp.pdulength")
	vAssert(d.SourceID == c.SourceID, "C30.rt.csnp.source")
	vAssert(d.StartLSPID == c.StartLSPID, "C30.rt.csnp.start")
	vAssert(d.EndLSPID == c.EndLSPID, "C30.rt.csnp.end")
	e2 := c30FindEntries(d.TLVs)
	vAssert(e2 != nil, "C30.rt.csnp.entries.present")
	if e2 != nil {
		vAssert(len(e2.LSPEntries) == n, "C30.rt.csnp.entries.count")
		if len(e2.LSPEntries) == n {
			for i := 0; i < n; i++ {
				c30CmpEntry(e2.LSPEntries[i], et.LSPEntries[i], "csnp")
			}
		}
	}
}

func VC30_RoundTripPSNP() {
	n := vParam("entries")
	et := c30EntriesTLV(n)
	p := &PSNP{PDULength: ndU16(), SourceID: types.SourceID{SystemID: c30SysID(), CircuitID: ndU8()}, TLVs: []TLV{et}}
	buf := bytes.NewBuffer(nil)
	p.Serialize(buf)
	d, err := DecodePSNP(buf)
	vReach("roundtrip")
	vAssert(err == nil, "C30.rt.psnp.decodes")
	if err != nil {
		return
	}
	vAssert(d.PDULength == p.PDULength, "C30.rt.psnp.pdulength")
	vAssert(d.SourceID == p.SourceID, "C30.rt.psnp.source")
	e2 := c30FindEntries(d.TLVs)
	vAssert(e2 != nil, "C30.rt.psnp.entries.present")
	if e2 != nil {
		vAssert(len(e2.LSPEntries) == n, "C30.rt.psnp.entries.count")
		if len(e2.LSPEntries) == n {
			for i := 0; i < n; i++ {
				c30CmpEntry(e2.LSPEntries[i], et.LSPEntries[i], "psnp")
			}
		}
	}
}

func VC30_RoundTripLSP() {
	l := &LSPDU{Length: ndU16(), RemainingLifetime: ndU16(), LSPID: c30LSPID(), SequenceNumber: ndU32(), Checksum: ndU16(), TypeBlock: ndU8()}
	host := NewDynamicHostnameTLV([]byte{ndU8(), ndU8(), ndU8()})
	ps := NewProtocolsSupportedTLV([]uint8{ndU8()})
	l.TLVs = []TLV{host, &ps}
	buf := bytes.NewBuffer(nil)
	l.Serialize(buf)
	d, err := DecodeLSPDU(buf)
	vReach("roundtrip")
	vAssert(err == nil, "C30.rt.lsp.decodes")
	if err != nil {
		return
	}
	vAssert(d.Length == l.Length, "C30.rt.lsp.length")
	vAssert(d.RemainingLifetime == l.RemainingLifetime, "C30.rt.lsp.lifetime")
	vAssert(d.LSPID == l.LSPID, "C30.rt.lsp.lspid")
	vAssert(d.SequenceNumber == l.SequenceNumber, "C30.rt.lsp.seq")
	vAssert(d.Checksum == l.Checksum, "C30.rt.lsp.checksum")
	vAssert(d.TypeBlock == l.TypeBlock, "C30.rt.lsp.typeblock")
	vAssert(len(d.TLVs) == 2, "C30.rt.lsp.tlvcount")
	if len(d.TLVs) == 2 {
		h2, ok := d.TLVs[0].(*DynamicHostNameTLV)
		vAssert(ok, "C30.rt.lsp.hostname.type")
		if ok {
			vAssert(len(h2.Hostname) == 3, "C30.rt.lsp.hostname.len")
			if len(h2.Hostname) == 3 {
				vAssert(h2.Hostname[0] == host.Hostname[0], "C30.rt.lsp.hostname.0")
				vAssert(h2.Hostname[2] == host.Hostname[2], "C30.rt.lsp.hostname.2")
			}
		}
	}
	cp := l.Copy()
	vAssert(cp.SequenceNumber == l.SequenceNumber, "C30.copy.seq")
	vAssert(len(cp.TLVs) == len(l.TLVs), "C30.copy.tlvs")
}

// every TLV kind bio-rd itself emits round-trips through Serialize -> readTLV, including the empty shapes
// (an IPv6-only interface emits an IP interface address TLV with no address)
func VC30_RoundTripTLV() {
	var t TLV
	k := vParam("kind")
	switch k {
	case 0:
		n := vChoice(3)
		addrs := make([]*bnet.Prefix, n)
		for i := range addrs {
			addrs[i] = bnet.NewPfx(bnet.IPv4(ndU32()), 32).Ptr()
		}
		t = NewIPInterfaceAddressesTLV(addrs)
	case 1:
		n := vChoice(3)
		ps := make([]uint8, n)
		for i := range ps {
			ps[i] = ndU8()
		}
		x := NewProtocolsSupportedTLV(ps)
		t = &x
	case 2:
		n := vChoice(3)
		as := make([]types.AreaID, n)
		for i := range as {
			as[i] = types.AreaID{ndU8(), ndU8(), ndU8()}
		}
		t = NewAreaAddressesTLV(as)
	case 3:
		n := vChoice(3)
		t = NewDynamicHostnameTLV(ndBytes(2)[:n])
	case 4:
		t = c30EntriesTLV(vChoice(3))
	case 5:
		t = NewP2PAdjacencyStateTLV(ndU8(), ndU32())
	}
	buf := bytes.NewBuffer(nil)
	t.Serialize(buf)
	want := append([]byte(nil), buf.Bytes()...)
	d, err := readTLV(buf)
	vReach("roundtrip")
	vAssert(err == nil, "C30.rt.tlv.decodes")
	if err != nil {
		return
	}
	vAssert(buf.Len() == 0, "C30.rt.tlv.consumed")
	vAssert(d.Type() == t.Type(), "C30.rt.tlv.type")
	vAssert(d.Length() == t.Length(), "C30.rt.tlv.length")
	// re-serialising the decoded TLV gives the same bytes
	buf2 := bytes.NewBuffer(nil)
	d.Serialize(buf2)
	got := buf2.Bytes()
	vAssert(len(got) == len(want), "C30.rt.tlv.reserialize.len")
	if len(got) == len(want) {
		for i := range want {
			vAssert(got[i] == want[i], "C30.rt.tlv.reserialize.bytes")
		}
	}
}

func VC30_Twin() {
	data := ndBytes(8)
	_, _ = DecodeHeader(bytes.NewBuffer(data))
	vAssert(false, "C30.twin")
}
