package server

import "bytes"

func bytesBuffer(b []byte) *bytes.Buffer { return bytes.NewBuffer(b) }
