package server

import (
	"errors"
	"net"
	"time"

	bnet "github.com/bio-routing/bio-rd/net"
	"github.com/bio-routing/bio-rd/protocols/bgp/packet"
	"github.com/bio-routing/bio-rd/protocols/bgp/types"
	"github.com/bio-routing/bio-rd/route"
	"github.com/bio-routing/bio-rd/routingtable/filter"
	"github.com/bio-routing/bio-rd/routingtable/filter/actions"
	"github.com/bio-routing/bio-rd/routingtable/locRIB"
	"github.com/bio-routing/bio-rd/routingtable/vrf"
)

// C07 — leaving Established withdraws everything the session contributed; re-establishing starts from empty
// Adj-RIBs and re-advertises the Loc-RIB.

type c07Conn struct {
	net.Conn
	writes    int
	failWrite bool
	closed    bool
	afterStop int // bytes written after the session left Established
	stopped   bool
	blocked   bool          // the peer has stopped reading: writes block until the connection is closed
	unblock   chan struct{} // closed by Close
}

func (c *c07Conn) Write(b []byte) (int, error) {
	if c.failWrite {
		return 0, errors.New("write failed")
	}
	if c.blocked {
		<-c.unblock
		return 0, errors.New("use of closed connection")
	}
	c.writes++
	if c.stopped {
		c.afterStop += len(b)
	}
	return len(b), nil
}
func (c *c07Conn) Close() error {
	if !c.closed {
		close(c.unblock)
	}
	c.closed = true
	return nil
}

func c07Chain(rewrite bool) filter.Chain {
	if rewrite {
		return filter.Chain{filter.NewFilter("lp200", []*filter.Term{filter.NewTerm("t", nil, []actions.Action{actions.NewSetLocalPrefAction(200), actions.NewSetMEDAction(77), actions.NewAcceptAction()})})}
	}
	return filter.NewAcceptAllFilterChain()
}

type c07Sys struct {
	fsm        *FSM
	cc         *c07Conn
	rib4, rib6 *locRIB.LocRIB
	vrf        *vrf.VRF
}

func c07Setup() *c07Sys {
	rewrite := vParam("rewrite") == 1
	v := vrf.NewUntrackedVRF("master", 0)
	rib4, rib6 := locRIB.New("inet.0"), locRIB.New("inet6.0")
	p := &peer{
		addr: bnet.IPv4FromOctets(169, 254, 100, 100).Ptr(), localAddr: bnet.IPv4FromOctets(169, 254, 100, 1).Ptr(),
		localASN: 65000, peerASN: 65001, routerID: 0x0a000001, holdTime: 90 * time.Second,
		ipv4: &peerAddressFamily{rib: rib4, importFilterChain: c07Chain(rewrite), exportFilterChain: filter.NewAcceptAllFilterChain()},
		ipv6: &peerAddressFamily{rib: rib6, importFilterChain: c07Chain(rewrite), exportFilterChain: filter.NewAcceptAllFilterChain()},
		vrf:  v, adjRIBInFactory: adjRIBInFactory{},
	}
	if vParam("rr") == 1 {
		p.peerASN = 65000
		p.routeReflectorClient = true
		p.clusterID = 0x0a0000fe
	}
	fsm := newFSM(p)
	p.fsms = append(p.fsms, fsm)
	fsm.ipv6Unicast.multiProtocol = true
	cc := &c07Conn{unblock: make(chan struct{})}
	fsm.con = cc
	fsm.connectRetryTimer = time.NewTimer(time.Minute)
	fsm.holdTime = 90 * time.Second
	return &c07Sys{fsm, cc, rib4, rib6, v}
}

func c07Pfx(i int) *bnet.Prefix {
	return bnet.NewPfx(bnet.IPv4(uint32(0x0a000000+i<<16)), 16).Ptr()
}

func c07Pfx6(i int) *bnet.Prefix {
	return bnet.NewPfx(bnet.IPv6(0x20010db800000000+uint64(i)<<16, 0), 48).Ptr()
}

// an UPDATE from the peer announcing IPv4 prefix i (and IPv6 prefix i through MP_REACH) with symbolic MED / LOCAL_PREF
func c07Update(i int, med, lp uint32, ibgp bool) *packet.BGPUpdate {
	nh := bnet.IPv4FromOctets(169, 254, 100, 100)
	nh6 := bnet.IPv6(0x20010db8ffff0000, 1)
	origin := &packet.PathAttribute{TypeCode: packet.OriginAttr, Value: uint8(0)}
	asp := &packet.PathAttribute{TypeCode: packet.ASPathAttr, Value: types.NewASPath([]uint32{65001, 65200})}
	m := &packet.PathAttribute{TypeCode: packet.MEDAttr, Value: med}
	n := &packet.PathAttribute{TypeCode: packet.NextHopAttr, Value: &nh}
	mp := &packet.PathAttribute{TypeCode: packet.MultiProtocolReachNLRIAttr, Value: packet.MultiProtocolReachNLRI{AFI: packet.AFIIPv6, SAFI: packet.SAFIUnicast, NextHop: &nh6, NLRI: &packet.NLRI{Prefix: c07Pfx6(i)}}}
	origin.Next, asp.Next, m.Next, n.Next = asp, m, n, mp
	if ibgp {
		mp.Next = &packet.PathAttribute{TypeCode: packet.LocalPrefAttr, Value: lp}
	}
	return &packet.BGPUpdate{PathAttributes: origin, NLRI: &packet.NLRI{Prefix: c07Pfx(i)}}
}

// a route of another source in the Loc-RIBs (it must survive and be advertised to the session)
func c07Static(i int) *route.Path {
	nh := bnet.IPv4(0x0a0a0a0a)
	return &route.Path{Type: route.StaticPathType, StaticPath: &route.StaticPath{NextHop: &nh}}
}

func c07FromSession(sys *c07Sys, r *locRIB.LocRIB) int {
	n := 0
	for _, rt := range r.Dump() {
		for _, p := range rt.Paths() {
			if p.Type == route.BGPPathType && p.BGPPath.BGPPathA.Source != nil && *p.BGPPath.BGPPathA.Source == *sys.fsm.peer.addr {
				n++
			}
		}
	}
	return n
}

func c07Notification() []byte {
	m := make([]byte, 21, 60)
	for i := 0; i < 16; i++ {
		m[i] = 0xff
	}
	m[16], m[17], m[18], m[19], m[20] = 0, 21, packet.NotificationMsg, packet.Cease, ndU8()%9
	return m[:60]
}

func c07Open() []byte {
	m := make([]byte, 29, 60)
	for i := 0; i < 16; i++ {
		m[i] = 0xff
	}
	m[16], m[17], m[18], m[19] = 0, 29, packet.OpenMsg, 4
	m[20], m[21], m[22], m[23] = 0xfd, 0xe9, 0, 90
	m[24], m[25], m[26], m[27], m[28] = 10, 0, 0, 9, 0
	return m[:60]
}

func c07Malformed() []byte {
	m := make([]byte, 19, 60)
	for i := 0; i < 16; i++ {
		m[i] = 0xff
	}
	m[16], m[17], m[18] = 0, 23, packet.UpdateMsg
	m = append(m, ndU8(), ndU8(), 0, 0) // withdrawn-routes length symbolic
	return m[:60]
}

func VC07_Leave() {
	sys := c07Setup()
	fsm, cc := sys.fsm, sys.cc
	ibgp := vParam("rr") == 1
	sys.rib4.AddPath(c07Pfx(9), c07Static(9))
	s := newEstablishedState(fsm)
	fsm.state = s
	vAssert(s.init() == nil, "C07.init")
	vSettle()
	vAssert(sys.vrf.IsContributingASN(65000), "C07.established.contributes.asn")
	vAssert(vImplies(ibgp, sys.vrf.IsContributingClusterID(0x0a0000fe)), "C07.established.contributes.clusterid")
	aro4 := fsm.ipv4Unicast.adjRIBOut
	vAssert(aro4.RouteCount() == 1, "C07.established.advertises.locrib")
	// the session learns routes
	k := vParam("k")
	for i := 0; i < k; i++ {
		next, _ := s.update(c07Update(i, ndU32(), ndU32(), ibgp), false, 0)
		_, est := next.(*establishedState)
		vAssert(est, "C07.update.stays.established")
	}
	vAssert(c07FromSession(sys, sys.rib4) == k && c07FromSession(sys, sys.rib6) == k, "C07.established.learned")
	clients4 := sys.rib4.ClientCount()

	// ---- the session leaves Established
	var next state
	malformedOK := false
	if vParam("failwrite") == 1 {
		cc.failWrite = true // the NOTIFICATION (if the event sends one) cannot be written
	}
	if vParam("blockwrite") == 1 {
		// the peer stopped reading: the update sender is stuck in Write when the event arrives
		cc.blocked = true
		sys.rib4.AddPath(c07Pfx(7), c07Static(7))
		vAdvance(int64(10 * time.Millisecond))
		vSettle()
		done := false
		go func() {
			next, _ = s.notification()
			done = true
		}()
		vSettle()
		vReach("left")
		_ = done
		vAssert(c07FromSession(sys, sys.rib4) == 0, "C07.locrib.ipv4.withdrawn")
		vAssert(c07FromSession(sys, sys.rib6) == 0, "C07.locrib.ipv6.withdrawn")
		vAssert(!sys.vrf.IsContributingASN(65000), "C07.contributing.asn.withdrawn")
		vAssert(sys.rib4.ClientCount() == clients4-1, "C07.adjribout.unregistered")
		vAssert(cc.closed, "C07.connection.closed")
		return
	}
	switch vParam("event") {
	case 1:
		next, _ = s.msgReceived(c07Notification(), fsm.decodeOptions(), false, 0)
	case 2:
		next, _ = s.holdTimerExpired()
	case 3:
		cc.failWrite = true
		next, _ = s.keepaliveTimerExpired()
		cc.failWrite = false
	case 4:
		data := c07Malformed()
		_, derr := packet.Decode(bytesBuffer(data), fsm.decodeOptions())
		malformedOK = derr == nil
		next, _ = s.msgReceived(data, fsm.decodeOptions(), false, 0)
	case 5:
		next, _ = s.msgReceived(c07Open(), fsm.decodeOptions(), false, 0)
	case 6:
		next, _ = s.manualStop()
	case 7:
		next, _ = s.automaticStop()
	case 8:
		next, _ = s.cease()
	case 9: // through the state's event loop: a stop request sent by peer.stop()
		go fsm.peer.stop()
		next, _ = s.run()
	case 10: // hold timer expiry through the event loop
		fsm.keepaliveTimer = time.NewTimer(time.Hour)
		fsm.lastUpdateOrKeepalive = time.Now()
		go func() { vAdvance(int64(91 * time.Second)) }()
		next, _ = s.run()
		for i := 0; i < 95; i++ {
			if _, est := next.(*establishedState); !est {
				break
			}
			next, _ = next.(*establishedState).run()
		}
	}
	vSettle()
	cc.stopped = true
	cc.failWrite = false
	vReach("left")
	if malformedOK {
		return // the symbolic bytes happened to be a valid UPDATE
	}
	_, est := next.(*establishedState)
	vAssert(!est && next != nil, "C07.left.established")
	vAssert(cc.closed, "C07.connection.closed")
	vAssert(c07FromSession(sys, sys.rib4) == 0, "C07.locrib.ipv4.withdrawn")
	vAssert(c07FromSession(sys, sys.rib6) == 0, "C07.locrib.ipv6.withdrawn")
	vAssert(sys.rib4.RouteCount() == 1, "C07.locrib.others.kept")
	vAssert(sys.rib4.ClientCount() == clients4-1, "C07.adjribout.unregistered")
	vAssert(!sys.vrf.IsContributingASN(65000), "C07.contributing.asn.withdrawn")
	vAssert(!sys.vrf.IsContributingClusterID(0x0a0000fe), "C07.contributing.clusterid.withdrawn")
	vAssert(!fsm.ribsInitialized, "C07.ribs.uninitialized")
	// the old Adj-RIB-Out no longer receives updates, nothing more is written to the closed connection
	before := aro4.RouteCount()
	sys.rib4.AddPath(c07Pfx(8), c07Static(8))
	vAdvance(int64(20 * time.Millisecond))
	vSettle()
	vAssert(aro4.RouteCount() == before, "C07.adjribout.stops.receiving")
	vAssert(cc.afterStop == 0, "C07.nothing.sent.after.leaving")

	// ---- re-establishment
	cc2 := &c07Conn{unblock: make(chan struct{})}
	fsm.con = cc2
	s2 := newEstablishedState(fsm)
	vAssert(s2.init() == nil, "C07.reinit")
	vAssert(fsm.ipv4Unicast.adjRIBIn.RouteCount() == 0 && fsm.ipv6Unicast.adjRIBIn.RouteCount() == 0, "C07.reestablish.adjribin.empty")
	vAssert(fsm.ipv4Unicast.adjRIBOut != aro4, "C07.reestablish.new.adjribout")
	vAssert(fsm.ipv4Unicast.adjRIBOut.RouteCount() == 2, "C07.reestablish.readvertises")
	vAdvance(int64(20 * time.Millisecond))
	vSettle()
	vAssert(cc2.writes >= 1, "C07.reestablish.sends")
	vAssert(sys.vrf.IsContributingASN(65000), "C07.reestablish.contributes")
}

func VC07_Twin() {
	sys := c07Setup()
	_ = sys
	vAssert(false, "C07.twin")
}
