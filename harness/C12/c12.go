package server

import (
	bnet "github.com/bio-routing/bio-rd/net"
	"github.com/bio-routing/bio-rd/protocols/bgp/packet"
	"github.com/bio-routing/bio-rd/protocols/bgp/types"
	"github.com/bio-routing/bio-rd/route"
	"github.com/bio-routing/bio-rd/routingtable"
	"github.com/bio-routing/bio-rd/routingtable/adjRIBIn"
	"github.com/bio-routing/bio-rd/routingtable/adjRIBOut"
	"github.com/bio-routing/bio-rd/routingtable/filter"
	"github.com/bio-routing/bio-rd/routingtable/filter/actions"
	"github.com/bio-routing/bio-rd/routingtable/locRIB"
	"github.com/bio-routing/bio-rd/routingtable/vrf"
)

// C12 — replacing a policy converges to what the new policy would have produced from the start.
// Differential: system A is built with policy P and then switched to P' through the session layer's
// replaceImportFilterChain / replaceExportFilterChain; system B is built with P' directly. Same routes.

func c12Chain(i int) filter.Chain {
	p8 := bnet.NewPfx(bnet.IPv4(0x0a000000), 8).Ptr()
	switch i {
	case 1:
		return filter.NewDrainFilterChain()
	case 2:
		return filter.Chain{filter.NewFilter("lp200", []*filter.Term{filter.NewTerm("t", nil, []actions.Action{actions.NewSetLocalPrefAction(200), actions.NewAcceptAction()})})}
	case 3:
		return filter.Chain{filter.NewFilter("lp300", []*filter.Term{filter.NewTerm("t", nil, []actions.Action{actions.NewSetLocalPrefAction(300), actions.NewAcceptAction()})})}
	case 4:
		return filter.Chain{filter.NewFilter("med50", []*filter.Term{filter.NewTerm("t", nil, []actions.Action{actions.NewSetMEDAction(50), actions.NewAcceptAction()})})}
	case 5: // accept the /8 (and more specifics) only
		return filter.Chain{filter.NewFilter("only8", []*filter.Term{
			filter.NewTerm("t", []*filter.TermCondition{filter.NewTermConditionWithRouteFilters(filter.NewRouteFilter(p8, filter.NewExactMatcher()))}, []actions.Action{actions.NewAcceptAction()}),
			filter.NewTerm("rej", nil, []actions.Action{actions.NewRejectAction()})})}
	case 6: // set MED in a fall-through term, then reject the /16
		p16 := bnet.NewPfx(bnet.IPv4(0x0a010000), 16).Ptr()
		return filter.Chain{filter.NewFilter("medthenreject", []*filter.Term{
			filter.NewTerm("m", nil, []actions.Action{actions.NewSetMEDAction(60)}),
			filter.NewTerm("r", []*filter.TermCondition{filter.NewTermConditionWithRouteFilters(filter.NewRouteFilter(p16, filter.NewExactMatcher()))}, []actions.Action{actions.NewRejectAction()}),
			filter.NewTerm("a", nil, []actions.Action{actions.NewAcceptAction()})})}
	}
	return filter.NewAcceptAllFilterChain()
}

type c12Sys struct {
	f   *fsmAddressFamily
	rib *locRIB.LocRIB
}

func c12Build(imp, exp filter.Chain) *c12Sys {
	v := vrf.NewUntrackedVRF("master", 0)
	// importing session: eBGP neighbour 10.0.9.1; exporting session: iBGP neighbour 169.254.100.100 (no rewrites)
	inSA := routingtable.SessionAttrs{RouterID: 1, PeerIP: bnet.IPv4(0x0a000901).Ptr(), LocalIP: bnet.IPv4(0x0a000902).Ptr(), Type: route.BGPPathType, LocalASN: 65000, PeerASN: 65101}
	outSA := routingtable.SessionAttrs{RouterID: 1, PeerIP: bnet.IPv4FromOctets(169, 254, 100, 100).Ptr(), LocalIP: bnet.IPv4FromOctets(169, 254, 100, 1).Ptr(), Type: route.BGPPathType, IBGP: true, LocalASN: 65000, PeerASN: 65000}
	rib := locRIB.New("inet.0")
	p := &peer{addr: outSA.PeerIP, localAddr: outSA.LocalIP, localASN: 65000, peerASN: 65000, routerID: 1, vrf: v}
	fsm := newFSM(p)
	f := newFSMAddressFamily(packet.AFIIPv4, packet.SAFIUnicast, &peerAddressFamily{rib: rib, importFilterChain: imp, exportFilterChain: exp, addPathSend: routingtable.ClientOptions{BestOnly: true}}, fsm)
	f.adjRIBIn = adjRIBIn.New(imp, v, inSA)
	f.adjRIBIn.Register(rib)
	f.adjRIBOut = adjRIBOut.New(rib, outSA, exp)
	rib.RegisterWithOptions(f.adjRIBOut, routingtable.ClientOptions{BestOnly: true})
	return &c12Sys{f: f, rib: rib}
}

type c12Route struct{ lp, med uint32 }

func c12Announce(s *c12Sys, pfxs []*bnet.Prefix, rs []c12Route) {
	for i, pfx := range pfxs {
		nh := bnet.IPv4(0x0a000901)
		src := bnet.IPv4(0x0a000901)
		p := &route.Path{Type: route.BGPPathType, BGPPath: &route.BGPPath{
			BGPPathA: &route.BGPPathA{NextHop: &nh, Source: &src, LocalPref: rs[i].lp, MED: rs[i].med, EBGP: true, BGPIdentifier: 9},
			ASPath:   types.NewASPath([]uint32{65101}), ASPathLen: 1}}
		s.f.adjRIBIn.AddPath(pfx, p)
	}
}

type c12View struct {
	present bool
	lp, med uint32
	asLen   uint16
}

func c12Get(r *route.Route) c12View {
	if r == nil || len(r.Paths()) == 0 {
		return c12View{}
	}
	b := r.Paths()[0].BGPPath
	return c12View{present: true, lp: b.BGPPathA.LocalPref, med: b.BGPPathA.MED, asLen: b.ASPathLen}
}

func c12Find(rs []*route.Route, pfx *bnet.Prefix) *route.Route {
	for _, r := range rs {
		if r.Prefix().Equal(pfx) {
			return r
		}
	}
	return nil
}

func c12SameView(a, b c12View, label string) {
	vAssert(a.present == b.present, label+".presence")
	if a.present && b.present {
		vAssert(a.lp == b.lp, label+".localpref")
		vAssert(a.med == b.med, label+".med")
		vAssert(a.asLen == b.asLen, label+".aspathlen")
	}
}

func VC12_Replace() {
	side := vParam("side") // 0: import policy replaced, 1: export policy replaced
	from, to := vParam("from"), vParam("to")
	pfxs := []*bnet.Prefix{bnet.NewPfx(bnet.IPv4(0x0a000000), 8).Ptr(), bnet.NewPfx(bnet.IPv4(0x0a010000), 16).Ptr()}
	rs := []c12Route{{100 + uint32(ndU8()&1), uint32(ndU8() & 1)}, {100 + uint32(ndU8()&1), uint32(ndU8() & 1)}}
	var a, b *c12Sys
	if side == 0 {
		a, b = c12Build(c12Chain(from), c12Chain(0)), c12Build(c12Chain(to), c12Chain(0))
	} else {
		a, b = c12Build(c12Chain(0), c12Chain(from)), c12Build(c12Chain(0), c12Chain(to))
	}
	late := ndBool() // routes arrive before or after the replacement
	if !late {
		c12Announce(a, pfxs, rs)
	}
	second := vParam("then")
	if side == 0 {
		a.f.replaceImportFilterChain(c12Chain(to))
		if second >= 0 { // a second replacement, back and forth
			a.f.replaceImportFilterChain(c12Chain(second))
			a.f.replaceImportFilterChain(c12Chain(to))
		}
	} else {
		a.f.replaceExportFilterChain(c12Chain(to))
		if second >= 0 {
			a.f.replaceExportFilterChain(c12Chain(second))
			a.f.replaceExportFilterChain(c12Chain(to))
		}
	}
	if late {
		c12Announce(a, pfxs, rs)
	}
	c12Announce(b, pfxs, rs)
	vReach("replace")
	for _, pfx := range pfxs {
		c12SameView(c12Get(a.rib.Get(pfx)), c12Get(b.rib.Get(pfx)), "C12.locrib")
		c12SameView(c12Get(c12Find(a.f.adjRIBOut.Dump(), pfx)), c12Get(c12Find(b.f.adjRIBOut.Dump(), pfx)), "C12.adjribout")
	}
}

func VC12_Twin() {
	_ = c12Chain(1)
	vAssert(false, "C12.twin")
}
