package server

import (
	"bytes"

	bnet "github.com/bio-routing/bio-rd/net"
	"github.com/bio-routing/bio-rd/protocols/bgp/packet"
	"github.com/bio-routing/bio-rd/protocols/bgp/types"
	"github.com/bio-routing/bio-rd/route"
	"github.com/bio-routing/bio-rd/routingtable"
	"github.com/bio-routing/bio-rd/routingtable/adjRIBIn"
	"github.com/bio-routing/bio-rd/routingtable/filter"
	"github.com/bio-routing/bio-rd/routingtable/locRIB"
	"github.com/bio-routing/bio-rd/routingtable/vrf"
)

// C19 — no route is installed from a malformed UPDATE. The oracle is parse-independent: whenever the real decoder
// accepts a message and the real per-family processing leaves anything in an Adj-RIB-In, the decoded message must
// be well-formed in the four senses of the property (lengths add up, attribute contents match declared lengths,
// prefix lengths within the family, mandatory attributes present).

func c19Family(fsm *FSM, afi uint16, addPathRX bool) *fsmAddressFamily {
	rib := locRIB.New("rib")
	f := newFSMAddressFamily(afi, packet.SAFIUnicast, &peerAddressFamily{rib: rib, importFilterChain: filter.NewAcceptAllFilterChain(), exportFilterChain: filter.NewAcceptAllFilterChain()}, fsm)
	f.addPathRX = addPathRX
	sa := routingtable.SessionAttrs{RouterID: 1, PeerIP: fsm.peer.addr, LocalIP: fsm.peer.localAddr, Type: route.BGPPathType, LocalASN: 65000, PeerASN: 65101, AddPathRX: addPathRX}
	f.adjRIBIn = adjRIBIn.New(filter.NewAcceptAllFilterChain(), fsm.peer.vrf, sa)
	return f
}

func c19FSM() *FSM {
	v := vrf.NewUntrackedVRF("master", 0)
	p := &peer{addr: bnet.IPv4(0x0a000901).Ptr(), localAddr: bnet.IPv4(0x0a000902).Ptr(), localASN: 65000, peerASN: 65101, routerID: 1, vrf: v}
	return newFSM(p)
}

// c19Msg frames the body the way the session does: the header length field is len(body)+delta; recvMsg reads that
// many bytes from the wire into a zeroed buffer of packet.MaxLen bytes and hands the whole buffer to the decoder
// ("pad" = 1), so a length that understates the message cuts it and one that overstates it pulls in further bytes.
func c19Msg(body []byte) ([]byte, int) {
	delta := vParam("delta")
	if delta > 0 {
		body = append(body, ndBytes(delta)...)
	} else if delta < 0 {
		body = body[:len(body)+delta]
	}
	l := 19 + len(body)
	m := make([]byte, 0, packet.MaxLen)
	for i := 0; i < 16; i++ {
		m = append(m, 0xff)
	}
	m = append(m, byte(l>>8), byte(l), packet.UpdateMsg)
	m = append(m, body...)
	if pad := vParam("pad"); pad > 0 {
		m = m[:len(m)+pad] // the receive buffer's zero bytes behind the message (bounded to "pad" bytes, really 4096-l)
	}
	return m, len(body)
}

func c19NLRISize(n *packet.NLRI, addPath bool) int {
	s := 0
	for ; n != nil; n = n.Next {
		s += 1 + int(bnet.BytesInAddr(n.Prefix.Len()))
		if addPath {
			s += 4
		}
	}
	return s
}

func c19HasAttr(u *packet.BGPUpdate, tc uint8) bool {
	for pa := u.PathAttributes; pa != nil; pa = pa.Next {
		if pa.TypeCode == tc {
			return true
		}
	}
	return false
}

// c19Oracle applies the decoded message to both families and, if anything was installed, requires well-formedness.
func c19Oracle(u *packet.BGPUpdate, bodyLen int, opt *packet.DecodeOptions) {
	fsm := c19FSM()
	f4 := c19Family(fsm, packet.AFIIPv4, opt.AddPathIPv4Unicast)
	f6 := c19Family(fsm, packet.AFIIPv6, opt.AddPathIPv6Unicast)
	f4.processUpdate(u, false, 0)
	f6.processUpdate(u, false, 0)
	d4, d6 := f4.adjRIBIn.Dump(), f6.adjRIBIn.Dump()
	vReach("processed")
	if len(d4) == 0 && len(d6) == 0 {
		return
	}
	vReach("installed")
	// (a) the three lengths add up to the message length
	wsz := c19NLRISize(u.WithdrawnRoutes, opt.AddPathIPv4Unicast)
	nsz := c19NLRISize(u.NLRI, opt.AddPathIPv4Unicast)
	asz := 0
	for pa := u.PathAttributes; pa != nil; pa = pa.Next {
		asz += 3 + int(pa.Length)
		if pa.ExtendedLength {
			asz++
		}
	}
	vAssert(wsz == int(u.WithdrawnRoutesLen), "C19.lengths.withdrawn")
	// known finding C19-1: decodePathAttrs loops "while consumed < total", so a last attribute that runs past the
	// total path attribute length is accepted (the repair is blocked by TestFSM255UpdatesIPv6, which sends such a message)
	vKnown("C19-1", asz > int(u.TotalPathAttrLen))
	vAssert(asz == int(u.TotalPathAttrLen), "C19.lengths.attributes")
	vAssert(4+int(u.WithdrawnRoutesLen)+int(u.TotalPathAttrLen)+nsz == bodyLen, "C19.lengths.nlri")
	// (b) attribute contents match their declared lengths
	for pa := u.PathAttributes; pa != nil; pa = pa.Next {
		switch pa.TypeCode {
		case packet.OriginAttr:
			vAssert(pa.Length == 1, "C19.attrlen.origin")
		case packet.NextHopAttr:
			vAssert(pa.Length == 4, "C19.attrlen.nexthop")
		case packet.MEDAttr:
			vAssert(pa.Length == 4, "C19.attrlen.med")
		case packet.LocalPrefAttr:
			vAssert(pa.Length == 4, "C19.attrlen.localpref")
		case packet.AtomicAggrAttr:
			vAssert(pa.Length == 0, "C19.attrlen.atomicaggr")
		case packet.ASPathAttr:
			asnSize := 2
			if opt.Use32BitASN {
				asnSize = 4
			}
			l := 0
			for _, seg := range *pa.Value.(*types.ASPath) {
				l += 2 + asnSize*len(seg.ASNs)
			}
			vAssert(l == int(pa.Length), "C19.attrlen.aspath")
		}
	}
	// (c) prefix lengths within the family, (d) mandatory attributes
	for _, r := range d4 {
		vAssert(r.Prefix().Len() <= 32, "C19.pfxlen.ipv4")
		vAssert(r.Prefix().Addr().IsIPv4(), "C19.family.ipv4")
		for _, p := range r.Paths() {
			vAssert(p.BGPPath.BGPPathA.NextHop != nil, "C19.mandatory.nexthop.stored")
			vAssert(p.BGPPath.ASPath != nil, "C19.mandatory.aspath.stored")
		}
	}
	if len(d4) > 0 {
		vAssert(c19HasAttr(u, packet.OriginAttr), "C19.mandatory.origin")
		vAssert(c19HasAttr(u, packet.ASPathAttr), "C19.mandatory.aspath")
		vAssert(c19HasAttr(u, packet.NextHopAttr) || (u.NLRI == nil && c19HasAttr(u, packet.MultiProtocolReachNLRIAttr)), "C19.mandatory.nexthop")
	}
	for _, r := range d6 {
		vAssert(r.Prefix().Len() <= 128, "C19.pfxlen.ipv6")
		for _, p := range r.Paths() {
			vAssert(p.BGPPath.BGPPathA.NextHop != nil, "C19.mandatory.nexthop.stored")
			vAssert(p.BGPPath.ASPath != nil, "C19.mandatory.aspath.stored")
		}
	}
	if len(d6) > 0 {
		vAssert(c19HasAttr(u, packet.OriginAttr), "C19.mandatory.origin")
		vAssert(c19HasAttr(u, packet.ASPathAttr), "C19.mandatory.aspath")
	}
}

func c19Opt() *packet.DecodeOptions {
	return &packet.DecodeOptions{AddPathIPv4Unicast: vParam("addpath") == 1, AddPathIPv6Unicast: vParam("addpath") == 1, Use32BitASN: vParam("asn4") == 1}
}

func c19Run(body []byte) {
	opt := c19Opt()
	wire, bodyLen := c19Msg(body)
	msg, err := packet.Decode(bytes.NewBuffer(wire), opt)
	vReach("decoded")
	if err != nil {
		return
	}
	u, ok := msg.Body.(*packet.BGPUpdate)
	vAssert(ok, "C19.body.update")
	c19Oracle(u, bodyLen, opt)
}

// every UPDATE body of k bytes (all bytes symbolic)
func VC19_Arbitrary() {
	c19Run(ndBytes(vParam("k")))
}

// c19Sym returns a symbolic byte if field i is selected by the entry's "sym" mask, and the valid value otherwise.
func c19Sym(i uint, valid uint8) uint8 {
	if vParam("sym")&(1<<i) != 0 {
		return ndU8()
	}
	return valid
}

// A valid UPDATE (one withdrawn /16, ORIGIN, AS_PATH of one 2-byte ASN, NEXT_HOP, MED, ATOMIC_AGGREGATE, one
// announced /24) in which the fields selected by "sym" are symbolic: 0 withdrawn-routes length, 1 withdrawn prefix
// length, 2 total attribute length, 3 ORIGIN length, 4 ORIGIN value, 5 AS_PATH length, 6 segment type, 7 segment
// count, 8 NEXT_HOP length, 9 MED length, 10 ATOMIC_AGGREGATE length, 11 NLRI prefix length. The attribute set is
// chosen by "mask".
func VC19_Template() {
	mask := vParam("mask")
	var attrs []byte
	if mask&1 != 0 {
		attrs = append(attrs, 0x40, packet.OriginAttr, c19Sym(3, 1), c19Sym(4, 0))
	}
	if mask&2 != 0 {
		if vParam("asn4") == 1 {
			attrs = append(attrs, 0x40, packet.ASPathAttr, c19Sym(5, 6), c19Sym(6, 2), c19Sym(7, 1), 0, 0, 0xfd, 0xe8)
		} else {
			attrs = append(attrs, 0x40, packet.ASPathAttr, c19Sym(5, 4), c19Sym(6, 2), c19Sym(7, 1), 0xfd, 0xe8)
		}
	}
	if mask&4 != 0 {
		attrs = append(attrs, 0x40, packet.NextHopAttr, c19Sym(8, 4), 10, 0, 9, 1)
	}
	if mask&8 != 0 {
		attrs = append(attrs, 0x80, packet.MEDAttr, c19Sym(9, 4), 0, 0, 0, 7)
	}
	if mask&16 != 0 {
		attrs = append(attrs, 0x40, packet.AtomicAggrAttr, c19Sym(10, 0))
	}
	var body []byte
	ap := vParam("addpath") == 1
	if vParam("withdraw") == 1 && ap {
		body = append(body, 0, c19Sym(0, 7), 0, 0, 0, 5, c19Sym(1, 16), 10, 1)
	} else if vParam("withdraw") == 1 {
		body = append(body, 0, c19Sym(0, 3), c19Sym(1, 16), 10, 1)
	} else {
		body = append(body, 0, c19Sym(0, 0))
	}
	body = append(body, 0, c19Sym(2, uint8(len(attrs))))
	body = append(body, attrs...)
	if vParam("nlri") == 1 {
		if ap {
			body = append(body, 0, 0, 0, 9)
		}
		body = append(body, c19Sym(11, 24), 10, 2, 3)
	}
	c19Run(body)
}

// multiprotocol: MP_REACH_NLRI for IPv6 unicast with one NLRI; fields selected by "sym": 0 total attribute length,
// 1 MP_REACH attribute length, 2 AFI low byte, 3 SAFI, 4 next-hop length, 5 NLRI prefix length, 6 ORIGIN length,
// 7 AS_PATH length, 8 segment count
func VC19_TemplateMP() {
	mask := vParam("mask")
	var attrs []byte
	mp := []byte{0, c19Sym(2, 2), c19Sym(3, 1), c19Sym(4, 16), 0x20, 0x01, 0x0d, 0xb8, 0, 0, 0, 0, 0, 0, 0, 0, 0, 0, 0, 1, 0, c19Sym(5, 32), 0x20, 0x01, 0x0d, 0xb8}
	attrs = append(attrs, 0x80, packet.MultiProtocolReachNLRIAttr, c19Sym(1, uint8(len(mp))))
	attrs = append(attrs, mp...)
	if mask&1 != 0 {
		attrs = append(attrs, 0x40, packet.OriginAttr, c19Sym(6, 1), 0)
	}
	if mask&2 != 0 {
		attrs = append(attrs, 0x40, packet.ASPathAttr, c19Sym(7, 4), 2, c19Sym(8, 1), 0xfd, 0xe8)
	}
	body := []byte{0, 0, 0, c19Sym(0, uint8(len(attrs)))}
	body = append(body, attrs...)
	c19Run(body)
}

// units: one attribute / one NLRI from an arbitrary buffer consume exactly what they declare
func VC19_Attr() {
	n := vParam("n")
	data := ndBytes(n)
	vAssume(data[1] == uint8(vParam("type")))
	buf := bytes.NewBuffer(data)
	pa, consumed, err := packet.VerifDecodePathAttr(buf, c19Opt())
	vReach("unit")
	if err != nil {
		return
	}
	vReach("unit.ok")
	vAssert(int(consumed) == n-buf.Len(), "C19.attr.consumed.is.declared")
	hdr := 3
	if pa.ExtendedLength {
		hdr = 4
	}
	vAssert(int(consumed) == hdr+int(pa.Length), "C19.attr.consumed.is.header.plus.length")
}

func VC19_NLRI() {
	n := vParam("n")
	data := ndBytes(n)
	afi := uint16(vParam("afi"))
	buf := bytes.NewBuffer(data)
	nl, consumed, err := packet.VerifDecodeNLRI(buf, afi, packet.SAFIUnicast, vParam("addpath") == 1)
	vReach("unit")
	if err != nil {
		return
	}
	vReach("unit.ok")
	vAssert(int(consumed) == n-buf.Len(), "C19.nlri.consumed")
	if afi == packet.AFIIPv4 {
		vAssert(nl.Prefix.Len() <= 32, "C19.nlri.pfxlen.ipv4")
	} else {
		vAssert(nl.Prefix.Len() <= 128, "C19.nlri.pfxlen.ipv6")
	}
}

// an NLRI list of declared length l is accepted only if its NLRI fill exactly l bytes
func VC19_NLRIs() {
	n := vParam("n")
	data := ndBytes(n)
	l := ndU16()
	vAssume(l <= uint16(n))
	buf := bytes.NewBuffer(data)
	_, err := packet.VerifDecodeNLRIs(buf, l, packet.AFIIPv4, packet.SAFIUnicast, vParam("addpath") == 1)
	vReach("unit")
	if err != nil {
		return
	}
	vAssert(n-buf.Len() == int(l), "C19.nlris.exact")
}

func VC19_Twin() {
	c19Run([]byte{0, 0, 0, 0})
	vAssert(false, "C19.twin")
}
