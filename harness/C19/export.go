package packet

import "bytes"

// exported views of the decoder units for the C19 harness (overlay only; never part of the build)

func VerifDecodePathAttr(buf *bytes.Buffer, opt *DecodeOptions) (*PathAttribute, uint16, error) {
	return decodePathAttr(buf, opt)
}

func VerifDecodeNLRI(buf *bytes.Buffer, afi uint16, safi uint8, addPath bool) (*NLRI, uint8, error) {
	return decodeNLRI(buf, afi, safi, addPath)
}

func VerifDecodeNLRIs(buf *bytes.Buffer, length uint16, afi uint16, safi uint8, addPath bool) (*NLRI, error) {
	return decodeNLRIs(buf, length, afi, safi, addPath)
}
