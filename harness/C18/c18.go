package server

import (
	"bytes"
	"net"

	bnet "github.com/bio-routing/bio-rd/net"
	"github.com/bio-routing/bio-rd/protocols/bgp/packet"
	"github.com/bio-routing/bio-rd/protocols/bgp/types"
	"github.com/bio-routing/bio-rd/route"
	"github.com/bio-routing/bio-rd/routingtable"
	"github.com/bio-routing/bio-rd/routingtable/filter"
	"github.com/bio-routing/bio-rd/routingtable/locRIB"
)

// C18 — UPDATE packing is lossless and within 4096 bytes. The attribute block is made large (an unknown transitive
// attribute of F bytes) so that the per-message prefix budget is a few bytes and a handful of prefixes with symbolic
// lengths crosses the budget boundary several times; everything written to the connection is decoded again.

type c18Conn struct {
	net.Conn
	msgs [][]byte
}

func (c *c18Conn) Write(b []byte) (int, error) {
	c.msgs = append(c.msgs, append([]byte(nil), b...))
	return len(b), nil
}
func (c *c18Conn) Close() error { return nil }

func c18Sender(v6, mp, addPath, ibgp bool) (*UpdateSender, *c18Conn) {
	peerIP := bnet.IPv4FromOctets(169, 254, 100, 100).Ptr()
	peerAS := uint32(65001)
	if ibgp {
		peerAS = 65000
	}
	p := &peer{addr: peerIP, localAddr: bnet.IPv4FromOctets(169, 254, 100, 1).Ptr(), localASN: 65000, peerASN: peerAS, routerID: 1}
	p.routeReflectorClient = ibgp && vParam("rr") == 1
	fsm := newFSM(p)
	fsm.supports4OctetASN = true
	afi := uint16(packet.AFIIPv4)
	rib := locRIB.New("inet.0")
	if v6 {
		afi = packet.AFIIPv6
	}
	opts := routingtable.ClientOptions{BestOnly: !addPath}
	if addPath {
		opts.MaxPaths = 4
	}
	f := newFSMAddressFamily(afi, packet.SAFIUnicast, &peerAddressFamily{rib: rib, importFilterChain: filter.NewAcceptAllFilterChain(), exportFilterChain: filter.NewAcceptAllFilterChain(), addPathSend: opts}, fsm)
	f.addPathTX = opts
	f.multiProtocol = mp || v6
	if v6 {
		fsm.ipv6Unicast = f
	} else {
		fsm.ipv4Unicast = f
	}
	fsm.state = newEstablishedState(fsm)
	cc := &c18Conn{}
	fsm.con = cc
	return newUpdateSender(f), cc
}

func c18Path(v6 bool, filler int, med uint32, opt int) *route.Path {
	nh := bnet.IPv4(0x0a090909)
	src := bnet.IPv4(0x0a090909)
	if v6 {
		nh = bnet.IPv6(0x20010db8ffff0000, 1)
	}
	bp := &route.BGPPath{
		BGPPathA: &route.BGPPathA{NextHop: &nh, Source: &src, LocalPref: 100, MED: med, EBGP: true, BGPIdentifier: 9},
		ASPath:   types.NewASPath([]uint32{65009}), ASPathLen: 1, PathIdentifier: 7,
	}
	if opt&1 != 0 || vParam("rr") == 1 {
		bp.BGPPathA.OriginatorID = 0x0a000001
	}
	if opt&2 != 0 {
		bp.BGPPathA.AtomicAggregate = true
	}
	if opt&4 != 0 {
		bp.BGPPathA.Aggregator = &types.Aggregator{ASN: 65009, Address: 0x0a000002}
	}
	if opt&8 != 0 || vParam("rr") == 1 { // towards a route-reflector client the Adj-RIB-Out always supplies a CLUSTER_LIST
		cl := types.ClusterList{1, 2}
		bp.ClusterList = &cl
	}
	if opt&16 != 0 {
		c := types.Communities{1, 2, 3}
		bp.Communities = &c
	}
	if filler > 0 {
		bp.UnknownAttributes = []types.UnknownPathAttribute{{Optional: true, Transitive: true, TypeCode: 200, Value: make([]byte, filler)}}
	}
	return &route.Path{Type: route.BGPPathType, BGPPath: bp}
}

func VC18_Pack() {
	n := vParam("n")
	v6 := vParam("v6") == 1
	addPath := vParam("addpath") == 1
	us, cc := c18Sender(v6, vParam("mp") == 1, addPath, vParam("ibgp") == 1)
	med := ndU32()
	path := c18Path(v6, vParam("filler"), med, vParam("opt"))
	// prefix lengths: all L1, except prefix number "odd" which has L2 (both symbolic)
	maxLen := uint8(32)
	if v6 {
		maxLen = 128
	}
	l1, l2 := ndU8(), ndU8()
	if f := vParam("l2"); f > 0 {
		l2 = uint8(f) // one symbolic length only (large prefix sets)
	}
	vAssume(l1 <= maxLen && l2 <= maxLen)
	pfxs := make([]*bnet.Prefix, n)
	for i := 0; i < n; i++ {
		l := l1
		if i == vParam("odd") {
			l = l2
		}
		if v6 {
			pfxs[i] = bnet.NewPfx(bnet.IPv6(0, 0), l).Ptr() // the address bits do not matter for packing; ::/l, told apart by position
		} else {
			pfxs[i] = bnet.NewPfx(bnet.IPv4(0), l).Ptr()
		}
		us.AddPath(pfxs[i], path)
	}
	us.toSendMu.Lock()
	us._flush()
	us.toSendMu.Unlock()
	vReach("flushed")

	opt := &packet.DecodeOptions{Use32BitASN: true, AddPathIPv4Unicast: addPath, AddPathIPv6Unicast: addPath}
	cnt1, cnt2 := 0, 0 // announced NLRI of length l1 / l2 (when l1 == l2 both count every NLRI)
	for _, m := range cc.msgs {
		vAssert(len(m) <= packet.MaxLen, "C18.size.limit")
		vAssert(int(m[16])<<8|int(m[17]) == len(m), "C18.size.header")
		msg, err := packet.Decode(bytes.NewBuffer(m), opt)
		vAssert(err == nil, "C18.decodes")
		if err != nil {
			continue
		}
		u := msg.Body.(*packet.BGPUpdate)
		nl := u.NLRI
		gotMED, gotFiller := med == 0, vParam("filler") == 0 // a MED of 0 is not sent
		for pa := u.PathAttributes; pa != nil; pa = pa.Next {
			switch pa.TypeCode {
			case packet.MEDAttr:
				gotMED = pa.Value.(uint32) == med
			case packet.MultiProtocolReachNLRIAttr:
				nl = pa.Value.(packet.MultiProtocolReachNLRI).NLRI
			case 200:
				gotFiller = len(pa.Value.([]byte)) == vParam("filler")
			}
		}
		if nl != nil {
			vAssert(gotMED, "C18.attributes.med")
			vAssert(gotFiller, "C18.attributes.unknown")
		}
		for ; nl != nil; nl = nl.Next {
			if addPath {
				vAssert(nl.PathIdentifier == 7, "C18.pathid")
			}
			if nl.Prefix.Len() == l1 {
				cnt1++
			}
			if nl.Prefix.Len() == l2 {
				cnt2++
			}
		}
	}
	odd := vParam("odd") >= 0 && vParam("odd") < n
	if l1 == l2 || !odd {
		vAssert(cnt1 == n, "C18.lossless.count")
	} else {
		vAssert(cnt1 == n-1, "C18.lossless.count")
		vAssert(cnt2 == 1, "C18.lossless.odd")
	}
}

func VC18_Twin() {
	us, _ := c18Sender(false, false, false, true)
	_ = us
	vAssert(false, "C18.twin")
}
