package mergedlocrib

import (
	bnet "github.com/bio-routing/bio-rd/net"
	"github.com/bio-routing/bio-rd/route"
	routeapi "github.com/bio-routing/bio-rd/route/api"
	"github.com/bio-routing/bio-rd/routingtable/locRIB"
)

// C29 — the merged RIB holds a route exactly while some source advertises it.

type c29Src struct{ id int }

func c29Route(i int) (*routeapi.Route, *bnet.Prefix) {
	pfx := bnet.NewPfx(bnet.IPv4(uint32(0x0a000000+i<<16)), 16)
	nh := bnet.IPv4(uint32(0xc0000201 + i))
	r := route.NewRoute(&pfx, &route.Path{Type: route.StaticPathType, StaticPath: &route.StaticPath{NextHop: &nh}})
	return r.ToProto(), &pfx
}

func VC29_History() {
	k := vParam("k")
	nsrc, nroute := vParam("src"), vParam("routes")
	lr := locRIB.New("merged")
	m := New(lr)
	srcs := []*c29Src{{0}, {1}, {2}}
	var routes []*routeapi.Route
	var pfxs []*bnet.Prefix
	for i := 0; i < nroute; i++ {
		r, p := c29Route(i)
		routes = append(routes, r)
		pfxs = append(pfxs, p)
	}
	var adv [3][2]bool // adv[src][route]: source currently advertises route
	for step := 0; step < k; step++ {
		s := vChoice(nsrc)
		r := vChoice(nroute)
		switch vChoice(3) {
		case 0:
			m.AddRoute(srcs[s], routes[r]) // a repeated advertisement is idempotent
			adv[s][r] = true
		case 1:
			m.RemoveRoute(srcs[s], routes[r])
			adv[s][r] = false
		case 2:
			m.DropAllBySrc(srcs[s])
			for j := 0; j < nroute; j++ {
				adv[s][j] = false
			}
		}
		for j := 0; j < nroute; j++ {
			want := false
			for i := 0; i < nsrc; i++ {
				if adv[i][j] {
					want = true
				}
			}
			got := lr.Get(pfxs[j])
			present := got != nil && len(got.Paths()) > 0
			vAssert(present == want, "C29.present")
			if present {
				vAssert(len(got.Paths()) == 1, "C29.single")
			}
		}
	}
	vReach("history")
}

func VC29_Twin() {
	lr := locRIB.New("merged")
	m := New(lr)
	r, _ := c29Route(0)
	m.AddRoute(&c29Src{0}, r)
	vAssert(false, "C29.twin")
}
