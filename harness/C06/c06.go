package adjRIBIn

import (
	bnet "github.com/bio-routing/bio-rd/net"
	"github.com/bio-routing/bio-rd/protocols/bgp/packet"
	"github.com/bio-routing/bio-rd/protocols/bgp/types"
	"github.com/bio-routing/bio-rd/route"
	"github.com/bio-routing/bio-rd/routingtable"
	"github.com/bio-routing/bio-rd/routingtable/filter"
	"github.com/bio-routing/bio-rd/routingtable/filter/actions"
	"github.com/bio-routing/bio-rd/routingtable/locRIB"
	"github.com/bio-routing/bio-rd/routingtable/vrf"
)

// C06 — ineligible paths never reach the Loc-RIB nor any other consumer, whatever the import policy is, however
// often it is replaced and whenever a consumer registers.

type c06Client struct {
	sawIneligible bool
	eligibleByID  *[4]bool
}

func (c *c06Client) note(p *route.Path) {
	id := p.BGPPath.BGPPathA.BGPIdentifier
	if id < 4 && !c.eligibleByID[id] {
		c.sawIneligible = true
	}
}
func (c *c06Client) AddPath(pfx *bnet.Prefix, p *route.Path) error            { c.note(p); return nil }
func (c *c06Client) AddPathInitialDump(pfx *bnet.Prefix, p *route.Path) error { c.note(p); return nil }
func (c *c06Client) RemovePath(pfx *bnet.Prefix, p *route.Path) bool          { return true }
func (c *c06Client) ReplacePath(pfx *bnet.Prefix, o *route.Path, n *route.Path) {
	c.note(n)
}
func (c *c06Client) RefreshRoute(*bnet.Prefix, []*route.Path) {}
func (c *c06Client) ReplaceFilterChain(filter.Chain)          {}
func (c *c06Client) EndOfRIB()                                {}
func (c *c06Client) Dispose()                                 {}

func c06Chain(which int) filter.Chain {
	switch which {
	case 1:
		return filter.NewDrainFilterChain()
	case 2:
		return filter.Chain{filter.NewFilter("lp", []*filter.Term{filter.NewTerm("t", nil, []actions.Action{actions.NewSetLocalPrefAction(300), actions.NewAcceptAction()})})}
	}
	return filter.NewAcceptAllFilterChain()
}

const (
	c06LocalASN   = 65000
	c06OtherASN   = 65007
	c06ClusterID  = 77
	c06OtherLocal = 65500 // a second ASN used by another session of the same VRF
)

func VC06_Eligibility() {
	ibgp := vParam("ibgp") == 1
	v := vrf.NewUntrackedVRF("master", 0)
	switch vParam("hist") {
	case 1:
		// another session (own local AS 65010, cluster 0x0a0000aa) came up first and has gone down since
		v.AddContributingASN(65010)
		v.AddContributingClusterID(0x0a0000aa)
		v.AddContributingASN(c06LocalASN)
		v.AddContributingASN(c06OtherLocal)
		v.AddContributingClusterID(c06ClusterID)
		v.RemoveContributingASN(65010)
		v.RemoveContributingClusterID(0x0a0000aa)
	case 2:
		// two sessions share the local AS / cluster ID, one of them has gone down
		v.AddContributingASN(c06LocalASN)
		v.AddContributingASN(c06OtherLocal)
		v.AddContributingASN(c06LocalASN)
		v.AddContributingClusterID(c06ClusterID)
		v.AddContributingClusterID(c06ClusterID)
		v.RemoveContributingASN(c06LocalASN)
		v.RemoveContributingClusterID(c06ClusterID)
	default:
		v.AddContributingASN(c06LocalASN)
		v.AddContributingASN(c06OtherLocal)
		v.AddContributingClusterID(c06ClusterID)
	}
	peerASN := uint32(65101)
	if ibgp {
		peerASN = c06LocalASN
	}
	sa := routingtable.SessionAttrs{RouterID: 0x01010101, PeerIP: bnet.IPv4(0x0a000901).Ptr(), LocalIP: bnet.IPv4(0x0a000902).Ptr(), Type: route.BGPPathType,
		IBGP: ibgp, LocalASN: c06LocalASN, PeerASN: peerASN,
		PeerRoleEnabled: ndBool(), PeerRoleAdvByPeer: ndBool(), PeerRoleRemote: ndU8() % 5}
	ari := New(c06Chain(vParam("chain")), v, sa)
	rib := locRIB.New("inet.0")
	var elig [4]bool
	cl := &c06Client{eligibleByID: &elig}
	early := vParam("early") == 1
	if early {
		ari.Register(rib)
		ari.Register(cl)
	}
	pfx := bnet.NewPfx(bnet.IPv4(0x0a000000), 8).Ptr()
	// one received path, every eligibility-relevant attribute symbolic
	nh := bnet.IPv4(0x0a000901)
	src := bnet.IPv4(0x0a000901)
	pickASN := func() uint32 {
		switch vChoice(3) {
		case 0:
			return c06LocalASN
		case 1:
			return c06OtherLocal
		}
		return c06OtherASN
	}
	var ap types.ASPath
	switch vParam("aspath") { // AS_PATH: empty / one segment / a sequence and a set
	case 1:
		ap = types.ASPath{{Type: types.ASSequence, ASNs: []uint32{peerASN, pickASN()}}}
	case 2:
		ap = types.ASPath{{Type: types.ASSequence, ASNs: []uint32{peerASN}}, {Type: types.ASSet, ASNs: []uint32{c06OtherASN, pickASN()}}}
	}
	b := &route.BGPPath{BGPPathA: &route.BGPPathA{NextHop: &nh, Source: &src, LocalPref: 100, EBGP: !ibgp, BGPIdentifier: 1,
		OriginatorID: 0x01010100 + uint32(ndU8()&1), OnlyToCustomer: uint32(ndU8()&1) * peerASN}, ASPath: &ap, ASPathLen: ap.Length()}
	if ndBool() {
		cl2 := types.ClusterList{uint32(76 + ndU8()&1)}
		b.ClusterList = &cl2
	}
	p := &route.Path{Type: route.BGPPathType, BGPPath: b}
	// --- eligibility predicate written from the statement
	ok := true
	if !ibgp && len(ap) == 0 {
		ok = false
	}
	for _, seg := range ap {
		for _, a := range seg.ASNs {
			if a == c06LocalASN || a == c06OtherLocal {
				ok = false
			}
		}
	}
	if b.BGPPathA.OriginatorID == sa.RouterID {
		ok = false
	}
	if b.ClusterList != nil && (*b.ClusterList)[0] == c06ClusterID {
		ok = false
	}
	if sa.PeerRoleEnabled && sa.PeerRoleAdvByPeer && b.BGPPathA.OnlyToCustomer != 0 {
		pr := sa.PeerRoleRemote
		if pr == packet.PeerRoleRoleCustomer || pr == packet.PeerRoleRoleRSClient {
			ok = false
		}
		if pr == packet.PeerRoleRolePeer && b.BGPPathA.OnlyToCustomer != peerASN {
			ok = false
		}
	}
	elig[1] = ok
	ari.AddPath(pfx, p)
	// the policy is replaced (possibly twice) and consumers may register late
	finalChain := -1
	for i := 0; i < 2; i++ {
		if ndBool() {
			finalChain = vChoice(3)
			ari.ReplaceFilterChain(c06Chain(finalChain))
		}
	}
	if !early {
		ari.Register(rib)
		ari.Register(cl)
	}
	vReach("eligibility")
	r := rib.Get(pfx)
	inRIB := r != nil && len(r.Paths()) > 0
	vAssert(vImplies(!ok, !inRIB), "C06.locrib.never")
	vAssert(!cl.sawIneligible, "C06.consumer.never")
	// and an eligible path is there whenever the policy in force accepts it (sanity: the check is not vacuous)
	if ok && finalChain == 0 {
		vAssert(inRIB, "C06.eligible.accepted")
	}
}

func VC06_Twin() {
	_ = c06Chain(1)
	vAssert(false, "C06.twin")
}
