package routingtable

import (
	bnet "github.com/bio-routing/bio-rd/net"
	"github.com/bio-routing/bio-rd/route"
)

// C01 — routing table vs. a prefix-map reference model kept on raw words.

type c01Pfx struct {
	hi, lo uint64
	l      uint8
}

type c01Ent struct {
	p   c01Pfx
	cnt [2]int // how many times path 0 / path 1 is stored for the prefix
}

func c01Mask64(n uint8) uint64 {
	if n == 0 {
		return 0
	}
	return ^uint64(0) << (64 - n)
}

// top n bits equal (v4: addresses live in the low 32 bits of lo, n counts from bit 31)
func c01TopEq(v6 bool, a, b c01Pfx, n uint8) bool {
	if !v6 {
		if n == 0 {
			return true
		}
		m := uint32(^uint32(0) << (32 - n))
		return uint32(a.lo)&m == uint32(b.lo)&m
	}
	if n <= 64 {
		m := c01Mask64(n)
		return a.hi&m == b.hi&m
	}
	if a.hi != b.hi {
		return false
	}
	m := c01Mask64(n - 64)
	return a.lo&m == b.lo&m
}

func c01Canon(v6 bool, p c01Pfx) bool {
	if !v6 {
		if p.l == 0 {
			return uint32(p.lo) == 0
		}
		if p.l >= 32 {
			return true
		}
		return uint32(p.lo)<<p.l == 0
	}
	if p.l <= 64 {
		if p.lo != 0 {
			return false
		}
		return p.hi&^c01Mask64(p.l) == 0
	}
	return p.lo&^c01Mask64(p.l-64) == 0
}

func c01Eq(a, b c01Pfx) bool {
	if a.l != b.l {
		return false
	}
	if a.hi != b.hi {
		return false
	}
	return a.lo == b.lo
}

// a covers b (contains or equals)
func c01Covers(v6 bool, a, b c01Pfx) bool {
	if a.l > b.l {
		return false
	}
	return c01TopEq(v6, a, b, a.l)
}

func c01Mk(v6 bool, lenParam string) (c01Pfx, *bnet.Prefix) {
	var p c01Pfx
	if fixed := vParam(lenParam); fixed >= 0 {
		// concrete length, symbolic address
		if v6 {
			p = c01Pfx{hi: ndU64(), lo: ndU64(), l: uint8(fixed)}
		} else {
			p = c01Pfx{lo: uint64(ndU32()), l: uint8(fixed)}
		}
		vAssume(c01Canon(v6, p))
		if v6 {
			return p, bnet.NewPfx(bnet.IPv6(p.hi, p.lo), p.l).Ptr()
		}
		return p, bnet.NewPfx(bnet.IPv4(uint32(p.lo)), p.l).Ptr()
	}
	if v6 {
		p = c01Pfx{hi: ndU64(), lo: ndU64(), l: ndU8()}
		vAssume(p.l <= 128)
	} else {
		p = c01Pfx{lo: uint64(ndU32()), l: ndU8()}
		vAssume(p.l <= 32)
	}
	if lens := vParam("lens"); lens == 2 { // three lengths
		if v6 {
			vAssume(vOr(vOr(p.l == 0, p.l == 64), p.l == 128))
		} else {
			vAssume(vOr(vOr(p.l == 0, p.l == 24), p.l == 32))
		}
	} else if lens == 1 { // boundary lengths only
		if v6 {
			vAssume(vOr(vOr(p.l <= 1, vAnd(p.l >= 63, p.l <= 65)), p.l >= 127))
		} else {
			vAssume(vOr(vOr(p.l <= 1, p.l == 24), p.l >= 31))
		}
	}
	vAssume(c01Canon(v6, p))
	if v6 {
		return p, bnet.NewPfx(bnet.IPv6(p.hi, p.lo), p.l).Ptr()
	}
	return p, bnet.NewPfx(bnet.IPv4(uint32(p.lo)), p.l).Ptr()
}

var c01LenName = []string{"l0", "l1", "l2", "l3"}

func c01Of(p *bnet.Prefix) c01Pfx {
	a := p.Addr()
	return c01Pfx{hi: a.Higher(), lo: a.Lower(), l: p.Len()}
}

func c01Find(ref []c01Ent, p c01Pfx) int {
	for i := range ref {
		if c01Eq(ref[i].p, p) {
			return i
		}
	}
	return -1
}

func c01Live(e c01Ent) bool { return e.cnt[0]+e.cnt[1] > 0 }

func VC01_History() {
	v6 := vParam("v6") == 1
	k := vParam("k")
	ops := vParam("ops") // base-4 digits, least significant first: 0 add, 1 remove path, 2 remove prefix, 3 replace
	rt := NewRoutingTable()
	paths := [2]*route.Path{
		{Type: route.StaticPathType, StaticPath: &route.StaticPath{NextHop: bnet.IPv4(1).Ptr()}},
		{Type: route.StaticPathType, StaticPath: &route.StaticPath{NextHop: bnet.IPv4(2).Ptr()}},
	}
	var ref []c01Ent
	for i := 0; i < k; i++ {
		op := ops % 4
		ops /= 4
		p, pp := c01Mk(v6, c01LenName[i])
		pi := 0
		if ndBool() {
			pi = 1
		}
		idx := c01Find(ref, p)
		switch op {
		case 0:
			rt.AddPath(pp, paths[pi])
			if idx < 0 {
				ref = append(ref, c01Ent{p: p})
				idx = len(ref) - 1
			}
			ref[idx].cnt[pi]++
		case 1:
			rt.RemovePath(pp, paths[pi])
			if idx >= 0 && ref[idx].cnt[pi] > 0 {
				ref[idx].cnt[pi]--
			}
		case 2:
			rt.RemovePfx(pp)
			if idx >= 0 {
				ref[idx].cnt = [2]int{}
			}
		case 3:
			rt.ReplacePath(pp, paths[pi])
			if idx < 0 {
				ref = append(ref, c01Ent{p: p})
				idx = len(ref) - 1
			}
			ref[idx].cnt = [2]int{}
			ref[idx].cnt[pi] = 1
		}
	}
	q, qp := c01Mk(v6, "lq")
	vReach("history")
	live, cover, inside := 0, 0, 0
	qi := -1
	for i := range ref {
		if !c01Live(ref[i]) {
			continue
		}
		live++
		if c01Eq(ref[i].p, q) {
			qi = i
		}
		if c01Covers(v6, ref[i].p, q) {
			cover++
		}
		if c01Covers(v6, q, ref[i].p) {
			inside++
		}
	}
	// exact lookup
	got := rt.Get(qp)
	vAssert((got != nil) == (qi >= 0), "C01.get.present")
	if got != nil && qi >= 0 {
		vAssert(len(got.Paths()) == ref[qi].cnt[0]+ref[qi].cnt[1], "C01.get.paths")
		n0 := 0
		for _, p := range got.Paths() {
			if p == paths[0] {
				n0++
			}
		}
		vAssert(n0 == ref[qi].cnt[0], "C01.get.whichpaths")
	}
	// counts
	vAssert(rt.GetRouteCount() == int64(live), "C01.routecount")
	dump := rt.Dump()
	vAssert(len(dump) == live, "C01.dump.count")
	// covering lookup
	lpm := rt.LPM(qp)
	vObserve(uint64(len(lpm)))
	vAssert(len(lpm) == cover, "C01.lpm.count")
	for _, r := range lpm {
		rp := c01Of(r.Prefix())
		vAssert(c01Covers(v6, rp, q), "C01.lpm.covers")
		j := c01Find(ref, rp)
		vAssert(j >= 0 && c01Live(ref[j]), "C01.lpm.stored")
	}
	// more-specifics lookup (also when q itself is not stored)
	lng := rt.GetLonger(qp)
	vObserve(uint64(len(lng)))
	vAssert(len(lng) == inside, "C01.longer.count")
	for _, r := range lng {
		rp := c01Of(r.Prefix())
		vAssert(c01Covers(v6, q, rp), "C01.longer.inside")
	}
}

func VC01_Twin() {
	rt := NewRoutingTable()
	_, pp := c01Mk(false, "l0")
	rt.AddPath(pp, &route.Path{Type: route.StaticPathType, StaticPath: &route.StaticPath{NextHop: bnet.IPv4(1).Ptr()}})
	vAssert(false, "C01.twin")
}
