package route

import (
	bnet "github.com/bio-routing/bio-rd/net"
	"github.com/bio-routing/bio-rd/protocols/bgp/types"
)

// C34 — Route.ToProto -> RouteFromProtoRoute preserves every field the API schema carries.

func c34IP() *bnet.IP {
	if vParam("vary") != 2 {
		ip := bnet.IPv6(ndU64(), ndU64())
		return &ip
	}
	if ndBool() {
		ip := bnet.IPv4(ndU32())
		return &ip
	}
	ip := bnet.IPv6(ndU64(), ndU64())
	return &ip
}

func c34ASPath() *types.ASPath {
	if vParam("vary") != 0 {
		return &types.ASPath{{Type: types.ASSequence, ASNs: []uint32{ndU32()}}}
	}
	nseg := vChoice(3)
	ap := make(types.ASPath, 0, nseg)
	for i := 0; i < nseg; i++ {
		seg := types.ASPathSegment{Type: types.ASSequence}
		if ndBool() {
			seg.Type = types.ASSet
		}
		n := vChoice(3)
		if n > 0 {
			seg.ASNs = make([]uint32, n)
			for j := range seg.ASNs {
				seg.ASNs[j] = ndU32()
			}
		}
		ap = append(ap, seg)
	}
	return &ap
}

func c34Path(a *BGPPathA) *Path {
	b := &BGPPath{BGPPathA: a, PathIdentifier: ndU32(), BMPPostPolicy: ndBool()}
	b.ASPath = c34ASPath()
	b.ASPathLen = b.ASPath.Length()
	if vParam("vary") != 1 {
		c := types.Communities{ndU32()}
		b.Communities = &c
		l := types.LargeCommunities{{GlobalAdministrator: ndU32(), DataPart1: ndU32(), DataPart2: ndU32()}}
		b.LargeCommunities = &l
		cl := types.ClusterList{ndU32()}
		b.ClusterList = &cl
		if vParam("vary") == 2 && ndBool() {
			b.UnknownAttributes = []types.UnknownPathAttribute{{Optional: ndBool(), Transitive: ndBool(), Partial: ndBool(), TypeCode: ndU8(), Value: c34Bytes()}}
		}
		return &Path{Type: BGPPathType, BGPPath: b, LTime: ndU32()}
	}
	switch vChoice(4) { // nil / empty / 1 / 2
	case 1:
		c := make(types.Communities, 0)
		b.Communities = &c
	case 2:
		c := types.Communities{ndU32()}
		b.Communities = &c
	case 3:
		c := types.Communities{ndU32(), ndU32()}
		b.Communities = &c
	}
	switch vChoice(3) {
	case 1:
		c := make(types.LargeCommunities, 0)
		b.LargeCommunities = &c
	case 2:
		c := types.LargeCommunities{{GlobalAdministrator: ndU32(), DataPart1: ndU32(), DataPart2: ndU32()}}
		b.LargeCommunities = &c
	}
	switch vChoice(4) {
	case 1:
		c := make(types.ClusterList, 0)
		b.ClusterList = &c
	case 2:
		c := types.ClusterList{ndU32()}
		b.ClusterList = &c
	case 3:
		c := types.ClusterList{ndU32(), ndU32()}
		b.ClusterList = &c
	}
	return &Path{Type: BGPPathType, BGPPath: b, LTime: ndU32()}
}

func c34Bytes() []byte {
	switch vChoice(3) {
	case 1:
		return ndBytes(1)
	case 2:
		return ndBytes(2)
	}
	return nil
}

func c34PathA() *BGPPathA {
	return &BGPPathA{NextHop: c34IP(), Source: c34IP(), LocalPref: ndU32(), MED: ndU32(), BGPIdentifier: ndU32(), OriginatorID: ndU32(),
		EBGP: ndBool(), Origin: ndU8(), OnlyToCustomer: ndU32()}
}

func c34lenC(c *types.Communities) int {
	if c == nil {
		return 0
	}
	return len(*c)
}
func c34lenL(c *types.LargeCommunities) int {
	if c == nil {
		return 0
	}
	return len(*c)
}
func c34lenCl(c *types.ClusterList) int {
	if c == nil {
		return 0
	}
	return len(*c)
}

func c34Compare(tag string, p, q *Path) {
	vAssert(q != nil, "C34.path.present."+tag)
	vAssert(q.Type == p.Type, "C34.type."+tag)
	x, y := p.BGPPath, q.BGPPath
	vAssert(y != nil, "C34.bgppath.present."+tag)
	a, b := x.BGPPathA, y.BGPPathA
	vAssert(*b.NextHop == *a.NextHop, "C34.nexthop."+tag)
	vAssert(*b.Source == *a.Source, "C34.source."+tag)
	vAssert(b.LocalPref == a.LocalPref, "C34.localpref."+tag)
	vAssert(b.MED == a.MED, "C34.med."+tag)
	vAssert(b.Origin == a.Origin, "C34.origin."+tag)
	vAssert(b.EBGP == a.EBGP, "C34.ebgp."+tag)
	vAssert(b.BGPIdentifier == a.BGPIdentifier, "C34.identifier."+tag)
	vAssert(b.OriginatorID == a.OriginatorID, "C34.originator."+tag)
	vAssert(b.OnlyToCustomer == a.OnlyToCustomer, "C34.otc."+tag)
	vAssert(y.PathIdentifier == x.PathIdentifier, "C34.pathid."+tag)
	vAssert(y.BMPPostPolicy == x.BMPPostPolicy, "C34.postpolicy."+tag)
	// AS_PATH
	vAssert(y.ASPath != nil, "C34.aspath.present."+tag)
	if y.ASPath != nil {
		vAssert(len(*y.ASPath) == len(*x.ASPath), "C34.aspath.segments."+tag)
		if len(*y.ASPath) == len(*x.ASPath) {
			for i := range *x.ASPath {
				s, t := (*x.ASPath)[i], (*y.ASPath)[i]
				vAssert(s.Type == t.Type, "C34.aspath.segtype."+tag)
				vAssert(len(s.ASNs) == len(t.ASNs), "C34.aspath.seglen."+tag)
				if len(s.ASNs) == len(t.ASNs) {
					for j := range s.ASNs {
						vAssert(s.ASNs[j] == t.ASNs[j], "C34.aspath.asn."+tag)
					}
				}
			}
		}
		vAssert(y.ASPathLen == x.ASPathLen, "C34.aspathlen."+tag)
	}
	// lists: nil and empty carry the same content
	vAssert(c34lenC(y.Communities) == c34lenC(x.Communities), "C34.communities.len."+tag)
	if c34lenC(y.Communities) == c34lenC(x.Communities) {
		for i := 0; i < c34lenC(x.Communities); i++ {
			vAssert((*y.Communities)[i] == (*x.Communities)[i], "C34.communities."+tag)
		}
	}
	vAssert(c34lenL(y.LargeCommunities) == c34lenL(x.LargeCommunities), "C34.largecommunities.len."+tag)
	if c34lenL(y.LargeCommunities) == c34lenL(x.LargeCommunities) {
		for i := 0; i < c34lenL(x.LargeCommunities); i++ {
			vAssert((*y.LargeCommunities)[i] == (*x.LargeCommunities)[i], "C34.largecommunities."+tag)
		}
	}
	vAssert(c34lenCl(y.ClusterList) == c34lenCl(x.ClusterList), "C34.clusterlist.len."+tag)
	if c34lenCl(y.ClusterList) == c34lenCl(x.ClusterList) {
		for i := 0; i < c34lenCl(x.ClusterList); i++ {
			vAssert((*y.ClusterList)[i] == (*x.ClusterList)[i], "C34.clusterlist."+tag)
		}
	}
	vAssert(len(y.UnknownAttributes) == len(x.UnknownAttributes), "C34.unknown.len."+tag)
	if len(y.UnknownAttributes) == len(x.UnknownAttributes) {
		for i := range x.UnknownAttributes {
			u, v := x.UnknownAttributes[i], y.UnknownAttributes[i]
			vAssert(u.Optional == v.Optional, "C34.unknown.flags."+tag)
			vAssert(u.Transitive == v.Transitive, "C34.unknown.flags."+tag)
			vAssert(u.Partial == v.Partial, "C34.unknown.flags."+tag)
			vAssert(u.TypeCode == v.TypeCode, "C34.unknown.type."+tag)
			vAssert(len(u.Value) == len(v.Value), "C34.unknown.vlen."+tag)
			if len(u.Value) == len(v.Value) {
				for j := range u.Value {
					vAssert(u.Value[j] == v.Value[j], "C34.unknown.value."+tag)
				}
			}
		}
	}
}

// one BGP path, every field symbolic
func VC34_RoundTrip() {
	dedup := vParam("dedup") == 1
	pfx := bnet.NewPfx(*c34IP(), ndU8())
	p := c34Path(c34PathA())
	r := NewRoute(&pfx, p)
	back := RouteFromProtoRoute(r.ToProto(), dedup)
	vReach("roundtrip")
	vAssert(*back.Prefix() == pfx, "C34.prefix")
	vAssert(len(back.Paths()) == 1, "C34.pathcount")
	if len(back.Paths()) == 1 {
		c34Compare("p", p, back.Paths()[0])
	}
}

// two routes converted one after the other whose cacheable attribute blocks are related: the second conversion
// must not disturb the first result (dedup cache) and both must round-trip
func VC34_TwoRoutes() {
	dedup := vParam("dedup") == 1
	pfx := bnet.NewPfx(bnet.IPv4(0x0a000000), 8)
	a1 := c34PathA()
	a2 := *a1
	// the second attribute block agrees with the first except possibly in OTC / MED
	if ndBool() {
		a2.OnlyToCustomer = ndU32()
	}
	if ndBool() {
		a2.MED = ndU32()
	}
	p1 := &Path{Type: BGPPathType, BGPPath: &BGPPath{BGPPathA: a1, ASPath: &types.ASPath{}, PathIdentifier: 1}}
	p2 := &Path{Type: BGPPathType, BGPPath: &BGPPath{BGPPathA: &a2, ASPath: &types.ASPath{}, PathIdentifier: 2}}
	b1 := RouteFromProtoRoute(NewRoute(&pfx, p1).ToProto(), dedup)
	b2 := RouteFromProtoRoute(NewRoute(&pfx, p2).ToProto(), dedup)
	vReach("tworoutes")
	c34Compare("first", p1, b1.Paths()[0])
	c34Compare("second", p2, b2.Paths()[0])
}

// static paths and the hidden flag
func VC34_StaticAndHidden() {
	pfx := bnet.NewPfx(*c34IP(), ndU8())
	var p *Path
	if ndBool() {
		p = &Path{Type: StaticPathType, StaticPath: &StaticPath{NextHop: c34IP()}}
	} else {
		p = c34Path(c34PathA())
	}
	p.HiddenReason = ndU8()
	vAssume(p.HiddenReason <= HiddenReasonEmptyASPath)
	vKnown("C34-1", p.HiddenReason == HiddenReasonEmptyASPath)
	r := NewRoute(&pfx, p)
	pr := r.ToProto()
	vReach("hidden")
	vAssert(len(pr.Paths) == 1, "C34.proto.pathcount")
	vAssert(vImplies(p.HiddenReason != HiddenReasonNone, pr.Paths[0].HiddenReason != 0), "C34.hidden.reported")
	back := RouteFromProtoRoute(pr, false)
	q := back.Paths()[0]
	vAssert(q.Type == p.Type, "C34.static.type")
	if p.Type == StaticPathType {
		vAssert(q.StaticPath != nil, "C34.static.present")
		if q.StaticPath != nil {
			vAssert(*q.StaticPath.NextHop == *p.StaticPath.NextHop, "C34.static.nexthop")
		}
	}
}

func VC34_Twin() {
	pfx := bnet.NewPfx(bnet.IPv4(0x0a000000), 8)
	p := c34Path(c34PathA())
	_ = RouteFromProtoRoute(NewRoute(&pfx, p).ToProto(), false)
	vAssert(false, "C34.twin")
}
