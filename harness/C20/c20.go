package server

import (
	bnet "github.com/bio-routing/bio-rd/net"
	"github.com/bio-routing/bio-rd/protocols/bgp/packet"
	"github.com/bio-routing/bio-rd/protocols/bgp/types"
	"github.com/bio-routing/bio-rd/route"
	"github.com/bio-routing/bio-rd/routingtable"
	"github.com/bio-routing/bio-rd/routingtable/adjRIBIn"
	"github.com/bio-routing/bio-rd/routingtable/filter"
	"github.com/bio-routing/bio-rd/routingtable/locRIB"
	"github.com/bio-routing/bio-rd/routingtable/vrf"
)

// C20 — a valid UPDATE is applied NLRI by NLRI: one path per announced NLRI with that NLRI's own path identifier and
// the message's attributes; each withdrawn NLRI removes the path with its own identifier (all paths without add-path).

func c20Family(afi uint16, addPathRX bool) *fsmAddressFamily {
	v := vrf.NewUntrackedVRF("master", 0)
	peerIP := bnet.IPv4(0x0a000901).Ptr()
	p := &peer{addr: peerIP, localAddr: bnet.IPv4(0x0a000902).Ptr(), localASN: 65000, peerASN: 65101, routerID: 1, vrf: v}
	fsm := newFSM(p)
	rib := locRIB.New("rib")
	f := newFSMAddressFamily(afi, packet.SAFIUnicast, &peerAddressFamily{rib: rib, importFilterChain: filter.NewAcceptAllFilterChain(), exportFilterChain: filter.NewAcceptAllFilterChain()}, fsm)
	f.addPathRX = addPathRX
	sa := routingtable.SessionAttrs{RouterID: 1, PeerIP: peerIP, LocalIP: p.localAddr, Type: route.BGPPathType, LocalASN: 65000, PeerASN: 65101, AddPathRX: addPathRX}
	f.adjRIBIn = adjRIBIn.New(filter.NewAcceptAllFilterChain(), v, sa)
	return f
}

func c20Pfx(afi uint16, i int) *bnet.Prefix {
	if afi == packet.AFIIPv6 {
		return bnet.NewPfx(bnet.IPv6(0x20010db800000000+uint64(i)<<16, 0), 48).Ptr()
	}
	return bnet.NewPfx(bnet.IPv4(uint32(0x0a000000+i<<16)), 16).Ptr()
}

func c20NLRIs(afi uint16, n int, ids []uint32) *packet.NLRI {
	var head, tail *packet.NLRI
	for i := 0; i < n; i++ {
		cur := &packet.NLRI{Prefix: c20Pfx(afi, i), PathIdentifier: ids[i]}
		if head == nil {
			head = cur
		} else {
			tail.Next = cur
		}
		tail = cur
	}
	return head
}

func c20Attrs(med uint32, nh *bnet.IP, withNH bool) *packet.PathAttribute {
	origin := &packet.PathAttribute{TypeCode: packet.OriginAttr, Value: uint8(0)}
	asp := &packet.PathAttribute{TypeCode: packet.ASPathAttr, Value: types.NewASPath([]uint32{65101, 65200})}
	m := &packet.PathAttribute{TypeCode: packet.MEDAttr, Value: med}
	origin.Next, asp.Next = asp, m
	if withNH {
		m.Next = &packet.PathAttribute{TypeCode: packet.NextHopAttr, Value: nh}
	}
	return origin
}

func c20Find(rs []*route.Route, pfx *bnet.Prefix) *route.Route {
	for _, r := range rs {
		if r.Prefix().Equal(pfx) {
			return r
		}
	}
	return nil
}

func VC20_Update() {
	n := vParam("n")
	mp := vParam("mp") == 1
	addPath := vParam("addpath") == 1
	afi := uint16(packet.AFIIPv4)
	if mp {
		afi = packet.AFIIPv6
	}
	f := c20Family(afi, addPath)
	ids := []uint32{ndU32(), ndU32(), ndU32()}
	if !addPath {
		ids = []uint32{0, 0, 0}
	}
	med := ndU32()
	nh := bnet.IPv4(0x0a000901)
	if mp {
		nh = bnet.IPv6(0x20010db8ffff0000, 1)
	}
	u := &packet.BGPUpdate{}
	if mp {
		attrs := c20Attrs(med, nil, false)
		u.PathAttributes = &packet.PathAttribute{TypeCode: packet.MultiProtocolReachNLRIAttr, Next: attrs,
			Value: packet.MultiProtocolReachNLRI{AFI: afi, SAFI: packet.SAFIUnicast, NextHop: &nh, NLRI: c20NLRIs(afi, n, ids)}}
	} else {
		u.PathAttributes = c20Attrs(med, &nh, true)
		u.NLRI = c20NLRIs(afi, n, ids)
	}
	f.processUpdate(u, false, 0)
	vReach("update")
	dump := f.adjRIBIn.Dump()
	var objs []*route.Path
	for i := 0; i < n; i++ {
		r := c20Find(dump, c20Pfx(afi, i))
		vAssert(r != nil && len(r.Paths()) == 1, "C20.announce.onepath")
		if r == nil || len(r.Paths()) != 1 {
			continue
		}
		p := r.Paths()[0]
		objs = append(objs, p)
		vAssert(p.BGPPath.PathIdentifier == ids[i], "C20.announce.pathid")
		vAssert(p.BGPPath.BGPPathA.MED == med, "C20.announce.med")
		vAssert(*p.BGPPath.BGPPathA.NextHop == nh, "C20.announce.nexthop")
		vAssert(p.BGPPath.ASPathLen == 2, "C20.announce.aspath")
	}
	// paths of distinct NLRI are distinct objects (a later change to one must not show up in another)
	for i := range objs {
		for j := i + 1; j < len(objs); j++ {
			vAssert(objs[i] != objs[j], "C20.announce.distinct.objects")
		}
	}
	// --- withdraw the first w NLRI, each with its own identifier (symbolic: same as announced or different)
	w := vParam("withdraw")
	wids := []uint32{ndU32(), ndU32(), ndU32()}
	if !addPath {
		wids = []uint32{0, 0, 0}
	}
	u2 := &packet.BGPUpdate{}
	if mp {
		u2.PathAttributes = &packet.PathAttribute{TypeCode: packet.MultiProtocolUnreachNLRIAttr, Value: packet.MultiProtocolUnreachNLRI{AFI: afi, SAFI: packet.SAFIUnicast, NLRI: c20NLRIs(afi, w, wids)}}
	} else {
		u2.WithdrawnRoutes = c20NLRIs(afi, w, wids)
	}
	f.processUpdate(u2, false, 0)
	dump = f.adjRIBIn.Dump()
	for i := 0; i < n; i++ {
		r := c20Find(dump, c20Pfx(afi, i))
		present := r != nil && len(r.Paths()) > 0
		want := true
		if i < w {
			want = addPath && wids[i] != ids[i] // without add-path the withdrawal removes the prefix's path whatever its id
		}
		vAssert(present == want, "C20.withdraw.exact")
	}
}

// One UPDATE that withdraws and announces (possibly the same prefix with different identifiers), applied to an
// Adj-RIB-In that already holds a path of prefix 0: the withdrawals are applied with their own identifiers, then the
// announcements.
func VC20_Mixed() {
	addPath := vParam("addpath") == 1
	afi := uint16(packet.AFIIPv4)
	f := c20Family(afi, addPath)
	nh := bnet.IPv4(0x0a000901)
	id0, idW, idA := ndU32(), ndU32(), ndU32()
	if !addPath {
		id0, idW, idA = 0, 0, 0
	}
	u0 := &packet.BGPUpdate{PathAttributes: c20Attrs(1, &nh, true), NLRI: c20NLRIs(afi, 1, []uint32{id0})}
	f.processUpdate(u0, false, 0)
	same := vParam("sameprefix") == 1
	ann := &packet.NLRI{Prefix: c20Pfx(afi, 1), PathIdentifier: idA}
	if same {
		ann.Prefix = c20Pfx(afi, 0)
	}
	u := &packet.BGPUpdate{PathAttributes: c20Attrs(2, &nh, true), NLRI: ann, WithdrawnRoutes: c20NLRIs(afi, 1, []uint32{idW})}
	f.processUpdate(u, false, 0)
	vReach("mixed")
	r0 := c20Find(f.adjRIBIn.Dump(), c20Pfx(afi, 0))
	has := func(id uint32, med uint32) bool {
		if r0 == nil {
			return false
		}
		for _, p := range r0.Paths() {
			if p.BGPPath.PathIdentifier == id && p.BGPPath.BGPPathA.MED == med {
				return true
			}
		}
		return false
	}
	n0 := 0
	if r0 != nil {
		n0 = len(r0.Paths())
	}
	if !addPath {
		if same {
			vAssert(n0 == 1 && has(0, 2), "C20.mixed.noaddpath.replaced")
		} else {
			vAssert(n0 == 0, "C20.mixed.noaddpath.withdrawn")
		}
		return
	}
	oldStays := idW != id0
	if same {
		// the announcement installs (P0,idA) with the new attributes; the old path stays iff it was neither
		// withdrawn nor replaced by the announcement with the same identifier
		vAssert(has(idA, 2), "C20.mixed.announced")
		keep := oldStays && idA != id0
		vAssert(has(id0, 1) == keep, "C20.mixed.withdrawn.own.id")
		want := 1
		if keep {
			want = 2
		}
		vAssert(n0 == want, "C20.mixed.count")
	} else {
		vAssert(has(id0, 1) == oldStays, "C20.mixed.withdrawn.own.id")
		r1 := c20Find(f.adjRIBIn.Dump(), c20Pfx(afi, 1))
		vAssert(r1 != nil && len(r1.Paths()) == 1 && r1.Paths()[0].BGPPath.PathIdentifier == idA, "C20.mixed.announced")
	}
}

// The established state hands an UPDATE to every configured address family: classic IPv4 fields and the multiprotocol
// attributes of one message are both applied.
func VC20_Established() {
	f4 := c20Family(packet.AFIIPv4, false)
	fsm := f4.fsm
	f6 := c20Family(packet.AFIIPv6, false)
	f6.fsm = fsm
	fsm.ipv4Unicast, fsm.ipv6Unicast = f4, f6
	fsm.holdTime = 0
	s := newEstablishedState(fsm)
	nh4 := bnet.IPv4(0x0a000901)
	nh6 := bnet.IPv6(0x20010db8ffff0000, 1)
	withMP := vParam("mp") == 1
	with4 := vParam("v4") == 1
	u := &packet.BGPUpdate{PathAttributes: c20Attrs(7, &nh4, true)}
	if with4 {
		u.NLRI = c20NLRIs(packet.AFIIPv4, 2, []uint32{0, 0})
	}
	if withMP {
		u.PathAttributes = &packet.PathAttribute{TypeCode: packet.MultiProtocolReachNLRIAttr, Next: u.PathAttributes,
			Value: packet.MultiProtocolReachNLRI{AFI: packet.AFIIPv6, SAFI: packet.SAFIUnicast, NextHop: &nh6, NLRI: c20NLRIs(packet.AFIIPv6, 2, []uint32{0, 0})}}
	}
	next, _ := s.update(u, false, 0)
	_, est := next.(*establishedState)
	vAssert(est, "C20.established.stays")
	vReach("established")
	for i := 0; i < 2; i++ {
		r4 := c20Find(f4.adjRIBIn.Dump(), c20Pfx(packet.AFIIPv4, i))
		vAssert((r4 != nil && len(r4.Paths()) == 1) == with4, "C20.established.ipv4.applied")
		r6 := c20Find(f6.adjRIBIn.Dump(), c20Pfx(packet.AFIIPv6, i))
		vAssert((r6 != nil && len(r6.Paths()) == 1) == withMP, "C20.established.ipv6.applied")
	}
	// a second message withdrawing one of each (classic withdrawn routes + MP_UNREACH)
	u2 := &packet.BGPUpdate{}
	if with4 {
		u2.WithdrawnRoutes = c20NLRIs(packet.AFIIPv4, 1, []uint32{0})
	}
	if withMP {
		u2.PathAttributes = &packet.PathAttribute{TypeCode: packet.MultiProtocolUnreachNLRIAttr, Value: packet.MultiProtocolUnreachNLRI{AFI: packet.AFIIPv6, SAFI: packet.SAFIUnicast, NLRI: c20NLRIs(packet.AFIIPv6, 1, []uint32{0})}}
	}
	s.update(u2, false, 0)
	for i := 0; i < 2; i++ {
		r4 := c20Find(f4.adjRIBIn.Dump(), c20Pfx(packet.AFIIPv4, i))
		vAssert((r4 != nil && len(r4.Paths()) == 1) == (with4 && i == 1), "C20.established.ipv4.withdrawn")
		r6 := c20Find(f6.adjRIBIn.Dump(), c20Pfx(packet.AFIIPv6, i))
		vAssert((r6 != nil && len(r6.Paths()) == 1) == (withMP && i == 1), "C20.established.ipv6.withdrawn")
	}
}

// Add-path receive: one UPDATE announces the SAME prefix twice with two symbolic identifiers (IPv4 fields or MP_REACH);
// both paths must be stored (one if the identifiers coincide), each with the message's attributes; a following UPDATE
// withdrawing (prefix, wid) removes exactly the path whose identifier is wid.
func VC20_SamePrefix() {
	mp := vParam("mp") == 1
	afi := uint16(packet.AFIIPv4)
	if mp {
		afi = packet.AFIIPv6
	}
	f := c20Family(afi, true)
	a, b, wid, med := ndU32(), ndU32(), ndU32(), ndU32()
	nh := bnet.IPv4(0x0a000901)
	if mp {
		nh = bnet.IPv6(0x20010db8ffff0000, 1)
	}
	nl := &packet.NLRI{Prefix: c20Pfx(afi, 0), PathIdentifier: a, Next: &packet.NLRI{Prefix: c20Pfx(afi, 0), PathIdentifier: b}}
	u := &packet.BGPUpdate{}
	if mp {
		u.PathAttributes = &packet.PathAttribute{TypeCode: packet.MultiProtocolReachNLRIAttr, Next: c20Attrs(med, nil, false),
			Value: packet.MultiProtocolReachNLRI{AFI: afi, SAFI: packet.SAFIUnicast, NextHop: &nh, NLRI: nl}}
	} else {
		u.PathAttributes = c20Attrs(med, &nh, true)
		u.NLRI = nl
	}
	f.processUpdate(u, false, 0)
	vReach("sameprefix")
	count := func(id uint32) int {
		r := c20Find(f.adjRIBIn.Dump(), c20Pfx(afi, 0))
		if r == nil {
			return 0
		}
		c := 0
		for _, p := range r.Paths() {
			if p.BGPPath.PathIdentifier == id && p.BGPPath.BGPPathA.MED == med {
				c++
			}
		}
		return c
	}
	total := func() int {
		r := c20Find(f.adjRIBIn.Dump(), c20Pfx(afi, 0))
		if r == nil {
			return 0
		}
		return len(r.Paths())
	}
	vAssert(count(a) == 1, "C20.sameprefix.first.stored")
	vAssert(count(b) == 1, "C20.sameprefix.second.stored")
	want := 2
	if a == b {
		want = 1
	}
	vAssert(total() == want, "C20.sameprefix.count")
	wn := &packet.NLRI{Prefix: c20Pfx(afi, 0), PathIdentifier: wid}
	u2 := &packet.BGPUpdate{}
	if mp {
		u2.PathAttributes = &packet.PathAttribute{TypeCode: packet.MultiProtocolUnreachNLRIAttr, Value: packet.MultiProtocolUnreachNLRI{AFI: afi, SAFI: packet.SAFIUnicast, NLRI: wn}}
	} else {
		u2.WithdrawnRoutes = wn
	}
	f.processUpdate(u2, false, 0)
	wantA, wantB := 1, 1
	if wid == a {
		wantA = 0
	}
	if wid == b {
		wantB = 0
	}
	vAssert(count(a) == wantA, "C20.sameprefix.withdraw.first")
	vAssert(count(b) == wantB, "C20.sameprefix.withdraw.second")
	if wid != a && wid != b {
		vAssert(total() == want, "C20.sameprefix.withdraw.other.id.noop")
	}
}

func VC20_Twin() {
	_ = c20Family(packet.AFIIPv4, false)
	vAssert(false, "C20.twin")
}
