package server

import (
	bnet "github.com/bio-routing/bio-rd/net"
	"github.com/bio-routing/bio-rd/protocols/bgp/packet"
	"github.com/bio-routing/bio-rd/protocols/bgp/types"
	"github.com/bio-routing/bio-rd/route"
	"github.com/bio-routing/bio-rd/routingtable"
	"github.com/bio-routing/bio-rd/routingtable/adjRIBIn"
	"github.com/bio-routing/bio-rd/routingtable/filter"
	"github.com/bio-routing/bio-rd/routingtable/locRIB"
	"github.com/bio-routing/bio-rd/routingtable/vrf"
)

// C20 — a valid UPDATE is applied NLRI by NLRI: one path per announced NLRI with that NLRI's own path identifier and
// the message's attributes; each withdrawn NLRI removes the path with its own identifier (all paths without add-path).

func c20Family(afi uint16, addPathRX bool) *fsmAddressFamily {
	v := vrf.NewUntrackedVRF("master", 0)
	peerIP := bnet.IPv4(0x0a000901).Ptr()
	p := &peer{addr: peerIP, localAddr: bnet.IPv4(0x0a000902).Ptr(), localASN: 65000, peerASN: 65101, routerID: 1, vrf: v}
	fsm := newFSM(p)
	rib := locRIB.New("rib")
	f := newFSMAddressFamily(afi, packet.SAFIUnicast, &peerAddressFamily{rib: rib, importFilterChain: filter.NewAcceptAllFilterChain(), exportFilterChain: filter.NewAcceptAllFilterChain()}, fsm)
	f.addPathRX = addPathRX
	sa := routingtable.SessionAttrs{RouterID: 1, PeerIP: peerIP, LocalIP: p.localAddr, Type: route.BGPPathType, LocalASN: 65000, PeerASN: 65101, AddPathRX: addPathRX}
	f.adjRIBIn = adjRIBIn.New(filter.NewAcceptAllFilterChain(), v, sa)
	return f
}

func c20Pfx(afi uint16, i int) *bnet.Prefix {
	if afi == packet.AFIIPv6 {
		return bnet.NewPfx(bnet.IPv6(0x20010db800000000+uint64(i)<<16, 0), 48).Ptr()
	}
	return bnet.NewPfx(bnet.IPv4(uint32(0x0a000000+i<<16)), 16).Ptr()
}

func c20NLRIs(afi uint16, n int, ids []uint32) *packet.NLRI {
	var head, tail *packet.NLRI
	for i := 0; i < n; i++ {
		cur := &packet.NLRI{Prefix: c20Pfx(afi, i), PathIdentifier: ids[i]}
		if head == nil {
			head = cur
		} else {
			tail.Next = cur
		}
		tail = cur
	}
	return head
}

func c20Attrs(med uint32, nh *bnet.IP, withNH bool) *packet.PathAttribute {
	origin := &packet.PathAttribute{TypeCode: packet.OriginAttr, Value: uint8(0)}
	asp := &packet.PathAttribute{TypeCode: packet.ASPathAttr, Value: types.NewASPath([]uint32{65101, 65200})}
	m := &packet.PathAttribute{TypeCode: packet.MEDAttr, Value: med}
	origin.Next, asp.Next = asp, m
	if withNH {
		m.Next = &packet.PathAttribute{TypeCode: packet.NextHopAttr, Value: nh}
	}
	return origin
}

func c20Find(rs []*route.Route, pfx *bnet.Prefix) *route.Route {
	for _, r := range rs {
		if r.Prefix().Equal(pfx) {
			return r
		}
	}
	return nil
}

func VC20_Update() {
	n := vParam("n")
	mp := vParam("mp") == 1
	addPath := vParam("addpath") == 1
	afi := uint16(packet.AFIIPv4)
	if mp {
		afi = packet.AFIIPv6
	}
	f := c20Family(afi, addPath)
	ids := []uint32{ndU32(), ndU32(), ndU32()}
	if !addPath {
		ids = []uint32{0, 0, 0}
	}
	med := ndU32()
	nh := bnet.IPv4(0x0a000901)
	if mp {
		nh = bnet.IPv6(0x20010db8ffff0000, 1)
	}
	u := &packet.BGPUpdate{}
	if mp {
		attrs := c20Attrs(med, nil, false)
		u.PathAttributes = &packet.PathAttribute{TypeCode: packet.MultiProtocolReachNLRIAttr, Next: attrs,
			Value: packet.MultiProtocolReachNLRI{AFI: afi, SAFI: packet.SAFIUnicast, NextHop: &nh, NLRI: c20NLRIs(afi, n, ids)}}
	} else {
		u.PathAttributes = c20Attrs(med, &nh, true)
		u.NLRI = c20NLRIs(afi, n, ids)
	}
	f.processUpdate(u, false, 0)
	vReach("update")
	dump := f.adjRIBIn.Dump()
	var objs []*route.Path
	for i := 0; i < n; i++ {
		r := c20Find(dump, c20Pfx(afi, i))
		vAssert(r != nil && len(r.Paths()) == 1, "C20.announce.onepath")
		if r == nil || len(r.Paths()) != 1 {
			continue
		}
		p := r.Paths()[0]
		objs = append(objs, p)
		vAssert(p.BGPPath.PathIdentifier == ids[i], "C20.announce.pathid")
		vAssert(p.BGPPath.BGPPathA.MED == med, "C20.announce.med")
		vAssert(*p.BGPPath.BGPPathA.NextHop == nh, "C20.announce.nexthop")
		vAssert(p.BGPPath.ASPathLen == 2, "C20.announce.aspath")
	}
	// paths of distinct NLRI are distinct objects (a later change to one must not show up in another)
	for i := range objs {
		for j := i + 1; j < len(objs); j++ {
			vAssert(objs[i] != objs[j], "C20.announce.distinct.objects")
		}
	}
	// --- withdraw the first w NLRI, each with its own identifier (symbolic: same as announced or different)
	w := vParam("withdraw")
	wids := []uint32{ndU32(), ndU32(), ndU32()}
	if !addPath {
		wids = []uint32{0, 0, 0}
	}
	u2 := &packet.BGPUpdate{}
	if mp {
		u2.PathAttributes = &packet.PathAttribute{TypeCode: packet.MultiProtocolUnreachNLRIAttr, Value: packet.MultiProtocolUnreachNLRI{AFI: afi, SAFI: packet.SAFIUnicast, NLRI: c20NLRIs(afi, w, wids)}}
	} else {
		u2.WithdrawnRoutes = c20NLRIs(afi, w, wids)
	}
	f.processUpdate(u2, false, 0)
	dump = f.adjRIBIn.Dump()
	for i := 0; i < n; i++ {
		r := c20Find(dump, c20Pfx(afi, i))
		present := r != nil && len(r.Paths()) > 0
		want := true
		if i < w {
			want = addPath && wids[i] != ids[i] // without add-path the withdrawal removes the prefix's path whatever its id
		}
		vAssert(present == want, "C20.withdraw.exact")
	}
}

func VC20_Twin() {
	_ = c20Family(packet.AFIIPv4, false)
	vAssert(false, "C20.twin")
}
