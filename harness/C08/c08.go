package adjRIBOut

import (
	bnet "github.com/bio-routing/bio-rd/net"
	"github.com/bio-routing/bio-rd/protocols/bgp/types"
	"github.com/bio-routing/bio-rd/route"
	"github.com/bio-routing/bio-rd/routingtable"
	"github.com/bio-routing/bio-rd/routingtable/filter"
	"github.com/bio-routing/bio-rd/routingtable/filter/actions"
	"github.com/bio-routing/bio-rd/routingtable/locRIB"
)

// C08 — the Adj-RIB-Out equals the export view of the Loc-RIB after every step of any Loc-RIB history.
// Real LocRIB with the real AdjRIBOut registered as its client (best path only or add-path), four session kinds.

func c08Session(kind int) routingtable.SessionAttrs {
	peerIP := bnet.IPv4FromOctets(169, 254, 100, 100).Ptr()
	sa := routingtable.SessionAttrs{RouterID: 1, PeerIP: peerIP, LocalIP: bnet.IPv4FromOctets(169, 254, 100, 1).Ptr(), Type: route.BGPPathType, LocalASN: 65000, ClusterID: 77}
	switch kind {
	case 0: // iBGP, not a client
		sa.IBGP, sa.PeerASN = true, 65000
	case 1: // iBGP route reflector client
		sa.IBGP, sa.PeerASN, sa.RouteReflectorClient = true, 65000, true
	case 2: // eBGP
		sa.PeerASN = 65001
	case 3: // eBGP route server client
		sa.PeerASN, sa.RouteServerClient = 65001, true
	}
	return sa
}

// a path learned from neighbour i: neighbours 1,2 are eBGP, neighbour 3 is an iBGP peer
func c08Path(i int) *route.Path {
	nh := bnet.IPv4(uint32(0x0a000900 + i))
	src := bnet.IPv4(uint32(0x0a000900 + i))
	return &route.Path{Type: route.BGPPathType, BGPPath: &route.BGPPath{
		BGPPathA: &route.BGPPathA{NextHop: &nh, Source: &src, LocalPref: 100 + uint32(ndU8()&1), MED: uint32(ndU8() & 1), EBGP: i != 3, BGPIdentifier: uint32(i)},
		ASPath:   types.NewASPath([]uint32{uint32(65100 + i)}), ASPathLen: 1}}
}

func c08Exportable(sa *routingtable.SessionAttrs, p *route.Path) bool {
	if sa.IBGP && !sa.RouteReflectorClient && !p.BGPPath.BGPPathA.EBGP {
		return false
	}
	return true
}

func VC08_History() {
	k := vParam("k")
	kind := vParam("kind")
	sa := c08Session(kind)
	rewrites := kind == 1 || kind == 2
	rib := locRIB.New("inet.0")
	chain := filter.NewAcceptAllFilterChain()
	policy := vParam("policy")
	if policy == 1 { // an export policy that rewrites an attribute the path comparison looks at
		chain = filter.Chain{filter.NewFilter("setmed", []*filter.Term{filter.NewTerm("t", nil, []actions.Action{actions.NewSetMEDAction(50), actions.NewAcceptAction()})})}
	}
	aro := New(rib, sa, chain)
	rib.RegisterWithOptions(aro, routingtable.ClientOptions{BestOnly: true})
	pfx := bnet.NewPfx(bnet.IPv4FromOctets(10, 0, 0, 0), 8).Ptr()
	var stored [4]*route.Path
	removed := false
	for step := 0; step < k; step++ {
		i := 1 + vChoice(3)
		if stored[i] == nil {
			p := c08Path(i)
			rib.AddPath(pfx, p)
			stored[i] = p
		} else {
			rib.RemovePath(pfx, stored[i])
			stored[i] = nil
			removed = true
		}
		// --- export view
		r := rib.Get(pfx)
		var want *route.Path
		if r != nil && len(r.Paths()) > 0 && c08Exportable(&sa, r.BestPath()) {
			want = r.BestPath()
		}
		got := aro.Get(pfx)
		var have *route.Path
		if got != nil && len(got.Paths()) > 0 {
			have = got.Paths()[0]
			vAssert(len(got.Paths()) == 1, "C08.single")
		}
		// known finding C08-1: on sessions that rewrite attributes a withdrawn route can stay behind
		vKnown("C08-1", rewrites && removed)
		vAssert((have != nil) == (want != nil), "C08.presence")
		if have != nil && want != nil {
			if policy == 1 {
				vAssert(have.BGPPath.BGPPathA.MED == 50, "C08.policy.med")
			} else {
				vAssert(have.BGPPath.BGPPathA.MED == want.BGPPath.BGPPathA.MED, "C08.med")
			}
			vAssert(have.BGPPath.BGPPathA.BGPIdentifier == want.BGPPath.BGPPathA.BGPIdentifier, "C08.whichpath")
			firstASN := (*have.BGPPath.ASPath)[0].ASNs[0]
			if kind == 2 {
				vAssert(firstASN == sa.LocalASN, "C08.rewrite.prepend")
				vAssert(*have.BGPPath.BGPPathA.NextHop == *sa.LocalIP, "C08.rewrite.nexthop")
			} else {
				vAssert(firstASN == (*want.BGPPath.ASPath)[0].ASNs[0], "C08.norewrite.aspath")
				vAssert(*have.BGPPath.BGPPathA.NextHop == *want.BGPPath.BGPPathA.NextHop, "C08.norewrite.nexthop")
			}
			if kind == 1 {
				vAssert(have.BGPPath.ClusterList != nil && (*have.BGPPath.ClusterList)[0] == sa.ClusterID, "C08.rewrite.clusterlist")
			}
		}
	}
	vReach("history")
}

func VC08_Twin() {
	_ = c08Session(0)
	vAssert(false, "C08.twin")
}
