package server

import (
	"bytes"
	"net"
	"time"

	bnet "github.com/bio-routing/bio-rd/net"
	"github.com/bio-routing/bio-rd/protocols/bgp/packet"
	"github.com/bio-routing/bio-rd/protocols/bgp/types"
	"github.com/bio-routing/bio-rd/route"
	"github.com/bio-routing/bio-rd/routingtable"
	"github.com/bio-routing/bio-rd/routingtable/adjRIBOut"
	"github.com/bio-routing/bio-rd/routingtable/filter"
	"github.com/bio-routing/bio-rd/routingtable/locRIB"
)

// C10 — the peer's view (replay of everything written to the connection) equals the Adj-RIB-Out once changes stop,
// for every placement of the update sender's ticks between route changes.
// Real AdjRIBOut + real UpdateSender with its real sender goroutine (coroutine on the virtual clock) + capturing conn.

type c10Conn struct {
	net.Conn
	msgs   [][]byte
	onSend func() // runs once inside the first Write after being armed: a route change arriving in the sender's write window
}

func (c *c10Conn) Write(b []byte) (int, error) {
	c.msgs = append(c.msgs, append([]byte(nil), b...))
	if f := c.onSend; f != nil {
		c.onSend = nil
		f()
	}
	return len(b), nil
}
func (c *c10Conn) Close() error { return nil }

type c10View struct {
	present bool
	med     uint32
	com     uint32
}

// replay the captured byte stream with the real decoder; announce / implicit replace / withdraw keyed by prefix
func c10Replay(c *c10Conn, pfxs []*bnet.Prefix) []c10View {
	view := make([]c10View, len(pfxs))
	idx := func(p *bnet.Prefix) int {
		for i := range pfxs {
			if pfxs[i].Equal(p) {
				return i
			}
		}
		return -1
	}
	for _, m := range c.msgs {
		msg, err := packet.Decode(bytes.NewBuffer(m), &packet.DecodeOptions{})
		vAssert(err == nil, "C10.stream.decodes")
		if err != nil || msg.Header.Type != packet.UpdateMsg {
			continue
		}
		u := msg.Body.(*packet.BGPUpdate)
		for w := u.WithdrawnRoutes; w != nil; w = w.Next {
			if i := idx(w.Prefix); i >= 0 {
				view[i] = c10View{}
			}
		}
		var med, com uint32
		for pa := u.PathAttributes; pa != nil; pa = pa.Next {
			switch pa.TypeCode {
			case packet.MEDAttr:
				med = pa.Value.(uint32)
			case packet.CommunitiesAttr:
				cs := pa.Value.(*types.Communities)
				if len(*cs) > 0 {
					com = (*cs)[0]
				}
			}
		}
		for n := u.NLRI; n != nil; n = n.Next {
			if i := idx(n.Prefix); i >= 0 {
				view[i] = c10View{present: true, med: med, com: com}
			}
		}
	}
	return view
}

func c10Path(variant int) *route.Path {
	// learned from an eBGP neighbour (10.9.9.9), exported to an iBGP peer: no session rewrites involved
	nh := bnet.IPv4(0x0a090909)
	src := bnet.IPv4(0x0a090909)
	coms := types.Communities{uint32(65000<<16 | 1)}
	med := uint32(10)
	switch variant {
	case 1:
		med = 20
	case 2:
		coms = types.Communities{uint32(65000<<16 | 2)} // differs from variant 0 only in a field the decision process ignores
	}
	return &route.Path{Type: route.BGPPathType, BGPPath: &route.BGPPath{
		BGPPathA: &route.BGPPathA{NextHop: &nh, Source: &src, LocalPref: 100, MED: med, EBGP: true, BGPIdentifier: 9},
		ASPath:   types.NewASPath([]uint32{65009}), ASPathLen: 1, Communities: &coms}}
}

func VC10_History() {
	k := vParam("k")
	peerIP := bnet.IPv4FromOctets(169, 254, 100, 100).Ptr()
	p := &peer{addr: peerIP, localAddr: bnet.IPv4FromOctets(169, 254, 100, 1).Ptr(), localASN: 65000, peerASN: 65000, routerID: 1}
	fsm := newFSM(p)
	rib := locRIB.New("inet.0")
	fsm.ipv4Unicast = newFSMAddressFamily(packet.AFIIPv4, packet.SAFIUnicast, &peerAddressFamily{rib: rib, importFilterChain: filter.NewAcceptAllFilterChain(), exportFilterChain: filter.NewAcceptAllFilterChain(),
		addPathSend: routingtable.ClientOptions{BestOnly: true}}, fsm)
	fsm.ipv4Unicast.addPathTX = routingtable.ClientOptions{BestOnly: true}
	fsm.state = newEstablishedState(fsm)
	cc := &c10Conn{}
	fsm.con = cc
	sa := routingtable.SessionAttrs{RouterID: 1, PeerIP: peerIP, LocalIP: p.localAddr, Type: route.BGPPathType, IBGP: true, LocalASN: 65000, PeerASN: 65000}
	aro := adjRIBOut.New(rib, sa, filter.NewAcceptAllFilterChain())
	us := newUpdateSender(fsm.ipv4Unicast)
	us.Start(5 * time.Millisecond)
	vSettle()
	aro.Register(us)

	pfxs := []*bnet.Prefix{bnet.NewPfx(bnet.IPv4FromOctets(10, 0, 0, 0), 8).Ptr(), bnet.NewPfx(bnet.IPv4FromOctets(10, 1, 0, 0), 16).Ptr()}
	stored := make([]*route.Path, len(pfxs))   // what the Adj-RIB-Out was last told per prefix
	storedVar := make([]int, len(pfxs))
	queued := make([]bool, len(pfxs))          // an announcement for the prefix has not been flushed yet
	tick := func() {
		vAdvance(int64(5 * time.Millisecond))
		vSettle()
		for i := range queued {
			queued[i] = false
		}
	}
	raced := false
	for i := 0; i < k; i++ {
		pi := 0
		if ndBool() {
			pi = 1
		}
		switch vChoice(3) {
		case 0: // announce / replace
			v := vChoice(3)
			if queued[pi] {
				raced = true
			}
			path := c10Path(v)
			aro.AddPath(pfxs[pi], path)
			stored[pi], storedVar[pi] = path, v
			queued[pi] = true
		case 1: // withdraw what is stored
			if stored[pi] != nil {
				if queued[pi] {
					raced = true
				}
				aro.RemovePath(pfxs[pi], stored[pi])
				stored[pi] = nil
			}
		case 2:
			tick()
		}
	}
	// changes stop: let the sender flush
	tick()
	tick()
	vReach("history")
	// known finding C10-1: a prefix is changed again while its announcement is still queued
	vKnown("C10-1", raced)
	view := c10Replay(cc, pfxs)
	dump := aro.Dump()
	for i := range pfxs {
		var inARO *route.Path
		for _, r := range dump {
			if r.Prefix().Equal(pfxs[i]) && len(r.Paths()) > 0 {
				inARO = r.Paths()[0]
			}
		}
		vAssert((inARO != nil) == (stored[i] != nil), "C10.adjribout.model")
		vAssert(view[i].present == (inARO != nil), "C10.peer.presence")
		if view[i].present && inARO != nil {
			vAssert(view[i].med == inARO.BGPPath.BGPPathA.MED, "C10.peer.med")
			vAssert(view[i].com == (*inARO.BGPPath.Communities)[0], "C10.peer.communities")
		}
	}
}

// a route change with the same attributes arrives while the sender is writing (its lock is released there)
func VC10_WriteWindow() {
	peerIP := bnet.IPv4FromOctets(169, 254, 100, 100).Ptr()
	p := &peer{addr: peerIP, localAddr: bnet.IPv4FromOctets(169, 254, 100, 1).Ptr(), localASN: 65000, peerASN: 65000, routerID: 1}
	fsm := newFSM(p)
	rib := locRIB.New("inet.0")
	fsm.ipv4Unicast = newFSMAddressFamily(packet.AFIIPv4, packet.SAFIUnicast, &peerAddressFamily{rib: rib, importFilterChain: filter.NewAcceptAllFilterChain(), exportFilterChain: filter.NewAcceptAllFilterChain(),
		addPathSend: routingtable.ClientOptions{BestOnly: true}}, fsm)
	fsm.ipv4Unicast.addPathTX = routingtable.ClientOptions{BestOnly: true}
	fsm.state = newEstablishedState(fsm)
	cc := &c10Conn{}
	fsm.con = cc
	sa := routingtable.SessionAttrs{RouterID: 1, PeerIP: peerIP, LocalIP: p.localAddr, Type: route.BGPPathType, IBGP: true, LocalASN: 65000, PeerASN: 65000}
	aro := adjRIBOut.New(rib, sa, filter.NewAcceptAllFilterChain())
	us := newUpdateSender(fsm.ipv4Unicast)
	us.Start(5 * time.Millisecond)
	vSettle()
	aro.Register(us)
	pfxs := []*bnet.Prefix{bnet.NewPfx(bnet.IPv4FromOctets(10, 0, 0, 0), 8).Ptr(), bnet.NewPfx(bnet.IPv4FromOctets(10, 1, 0, 0), 16).Ptr()}
	v := vChoice(3)
	aro.AddPath(pfxs[0], c10Path(v))
	cc.onSend = func() { aro.AddPath(pfxs[1], c10Path(v)) } // same attributes => same bucket
	vAdvance(int64(5 * time.Millisecond))
	vSettle()
	vAdvance(int64(5 * time.Millisecond))
	vSettle()
	vReach("window")
	view := c10Replay(cc, pfxs)
	vAssert(view[0].present, "C10.window.first")
	vAssert(view[1].present, "C10.window.second")
}

func VC10_Twin() {
	_ = c10Path(0)
	vAssert(false, "C10.twin")
}
