package server

import (
	"time"

	bnet "github.com/bio-routing/bio-rd/net"
	"github.com/bio-routing/bio-rd/net/ethernet"
	"github.com/bio-routing/bio-rd/protocols/device"
	"github.com/bio-routing/bio-rd/protocols/isis/packet"
	"github.com/bio-routing/bio-rd/protocols/isis/types"
)

// C31 — p2p adjacencies: three-way handshake and hold timer. Real server, interface, neighbor manager and the real
// adjChecker goroutine (coroutine on the virtual clock); hellos are P2PHello values with symbolic three-way TLV contents.

type c31Dev struct {
	state uint8
	addrs []*bnet.Prefix
}

func (m *c31Dev) GetIndex() uint64         { return 7 }
func (m *c31Dev) GetOperState() uint8      { return m.state }
func (m *c31Dev) GetAddrs() []*bnet.Prefix { return m.addrs }

type c31Upd struct{}

func (m *c31Upd) Subscribe(c device.Client, d string)   {}
func (m *c31Upd) Unsubscribe(c device.Client, d string) {}
func (m *c31Upd) Start() error                          { return nil }

var c31Own = types.SystemID{1, 2, 3, 4, 5, 6}

// a hello from neighbour nb; mode: 0 no three-way TLV, 1 TLV without neighbour, 2 TLV naming (sys, circuit)
func c31Hello(nb byte, hold uint16, mode int, sys types.SystemID, circuit uint32) *packet.P2PHello {
	return c31HelloFrom(nb, 0x0a000002, hold, mode, sys, circuit)
}

func c31HelloFrom(nb byte, ip uint32, hold uint16, mode int, sys types.SystemID, circuit uint32) *packet.P2PHello {
	tlvs := []packet.TLV{}
	if mode > 0 {
		adj := &packet.P2PAdjacencyStateTLV{TLVType: packet.P2PAdjacencyStateTLVType, TLVLength: packet.P2PAdjacencyStateTLVLenWithoutNeighbor, AdjacencyState: packet.P2PAdjStateInit, ExtendedLocalCircuitID: 99}
		if mode == 2 {
			adj.TLVLength = packet.P2PAdjacencyStateTLVLenWithNeighbor
			adj.NeighborSystemID = sys
			adj.NeighborExtendedLocalCircuitID = circuit
		}
		tlvs = append(tlvs, adj)
	}
	tlvs = append(tlvs,
		&packet.ProtocolsSupportedTLV{TLVType: packet.ProtocolsSupportedTLVType, TLVLength: 2, NetworkLayerProtocolIDs: []uint8{packet.NLPIDIPv4, packet.NLPIDIPv6}},
		packet.NewIPInterfaceAddressesTLV([]*bnet.Prefix{bnet.NewPfx(bnet.IPv4(ip), 24).Ptr()}),
		packet.NewAreaAddressesTLV([]types.AreaID{{0x49, 0, 1}}))
	return &packet.P2PHello{CircuitType: 2, SystemID: types.SystemID{9, 9, 9, 9, 9, nb}, HoldingTimer: hold, LocalCircuitID: 1, TLVs: tlvs}
}

func c31Setup() (*Server, *netIfa) {
	srv, _ := New([]*types.NET{{AreaID: types.AreaID{0x49, 0, 1}, SystemID: c31Own}}, &c31Upd{}, 1800)
	srv.SetEthernetInterfaceFactory(ethernet.NewMockEthernetInterfaceFactory())
	srv.SetHostnameFunc(func() (string, error) { return "h", nil })
	srv.AddInterface(&InterfaceConfig{Name: "eth0", PointToPoint: true, Level2: &InterfaceLevelConfig{HelloInterval: 1, HoldingTimer: 3, Metric: 10}})
	ifa := srv.netIfaManager.getInterface("eth0")
	ifa.DeviceUpdate(&c31Dev{state: device.IfOperUp, addrs: []*bnet.Prefix{bnet.NewPfx(bnet.IPv4(0x0a000001), 24).Ptr()}})
	vSettle()
	return srv, ifa
}

func c31State(srv *Server, nb byte) (found bool, st uint8) {
	for _, a := range srv.GetAdjacencies() {
		if a.SystemID[5] == nb {
			return true, a.Status
		}
	}
	return false, 0
}

// number of neighbours in the extended IS reachability TLV of the regenerated local LSP
func c31LSPNeighbors(srv *Server) int {
	n := 0
	for _, nb := range srv.extendedISReachabilityTLV().Neighbors {
		_ = nb
		n++
	}
	return n
}

func c31Advance(d time.Duration) {
	vAdvance(int64(d))
	vSettle()
}

// handshake: Up exactly after a hello that lists this system and circuit; Down on a later hello that does not
func VC31_Handshake() {
	srv, ifa := c31Setup()
	src := ethernet.MACAddr{0, 1, 2, 3, 4, 5}
	hold := uint16(ndU8())
	vAssume(hold >= 2)
	sys := types.SystemID{ndU8(), ndU8(), 3, 4, 5, ndU8()}
	circuit := ndU32()
	mode := 1 + vChoice(2) // a hello without the three-way TLV is rejected by validation (covered by the later hello below)
	listsUs := mode == 2 && sys == c31Own && circuit == 7
	// the first hello only creates the neighbour (Init); the second is evaluated
	ifa.processP2PHello(src, c31Hello(1, hold, mode, sys, circuit))
	vSettle()
	f0, st0 := c31State(srv, 1)
	vAssert(f0, "C31.known.after.first")
	vAssert(st0 != packet.P2PAdjStateUp, "C31.notup.after.first")
	ifa.processP2PHello(src, c31Hello(1, hold, mode, sys, circuit))
	vSettle()
	found, st := c31State(srv, 1)
	vReach("handshake")
	vAssert(found, "C31.known")
	up := found && st == packet.P2PAdjStateUp
	vObserve(uint64(st))
	vAssert(up == listsUs, "C31.up.iff.listed")
	vAssert((c31LSPNeighbors(srv) == 1) == up, "C31.lsp.lists.up")
	// a later hello with a different (symbolic) three-way TLV
	sys2 := types.SystemID{ndU8(), 2, 3, 4, 5, 6}
	circuit2 := ndU32()
	mode2 := vChoice(3)
	lists2 := mode2 == 2 && sys2 == c31Own && circuit2 == 7
	ifa.processP2PHello(src, c31Hello(1, hold, mode2, sys2, circuit2))
	vSettle()
	_, st2 := c31State(srv, 1)
	up2 := st2 == packet.P2PAdjStateUp
	if mode2 == 0 {
		vAssert(up2 == up, "C31.notlv.keeps.state")
	} else {
		vAssert(up2 == lists2, "C31.later.hello.decides")
	}
	vAssert((c31LSPNeighbors(srv) == 1) == up2, "C31.lsp.follows")
}

// hold timer: an Up adjacency goes Down once the holding time passed without a hello; a refreshed one stays Up
func VC31_HoldTimer() {
	srv, ifa := c31Setup()
	src := ethernet.MACAddr{0, 1, 2, 3, 4, 5}
	hold := uint16(ndU8())
	vAssume(hold >= 5)
	vAssume(hold <= 100)
	ifa.processP2PHello(src, c31Hello(1, hold, 2, c31Own, 7))
	vSettle()
	ifa.processP2PHello(src, c31Hello(1, hold, 2, c31Own, 7))
	vSettle()
	_, st := c31State(srv, 1)
	vAssert(st == packet.P2PAdjStateUp, "C31.hold.up")
	// 4 s later (less than any holding time here) it is still up
	c31Advance(4 * time.Second)
	_, st = c31State(srv, 1)
	vReach("holdtimer")
	vAssert(st == packet.P2PAdjStateUp, "C31.hold.stillup")
	if ndBool() {
		// refreshed by a hello: survives another 4 s after the original deadline would have passed
		ifa.processP2PHello(src, c31Hello(1, 200, 2, c31Own, 7))
		vSettle()
		c31Advance(101 * time.Second)
		_, st = c31State(srv, 1)
		vAssert(st == packet.P2PAdjStateUp, "C31.hold.refreshed")
		return
	}
	// silence past the holding time (max 100 s) plus a checker tick
	c31Advance(101 * time.Second)
	c31Advance(2 * time.Second)
	f, st := c31State(srv, 1)
	vAssert(f && st == packet.P2PAdjStateDown, "C31.hold.expired.down")
	vAssert(c31LSPNeighbors(srv) == 0, "C31.hold.expired.lsp")
}

// a neighbour that stopped sending hellos disappears eventually, whether or not it ever came Up
func VC31_Silent() {
	srv, ifa := c31Setup()
	src := ethernet.MACAddr{0, 1, 2, 3, 4, 5}
	hold := uint16(ndU8())
	vAssume(hold >= 2)
	vAssume(hold <= 100)
	mode := 1 + vChoice(2)
	ifa.processP2PHello(src, c31Hello(1, hold, mode, c31Own, 7))
	vSettle()
	if ndBool() {
		ifa.processP2PHello(src, c31Hello(1, hold, mode, c31Own, 7))
		vSettle()
	}
	f, _ := c31State(srv, 1)
	vAssert(f, "C31.silent.known")
	// holding time (<= 100 s) + down timeout (120 s) + ticks
	c31Advance(102 * time.Second)
	c31Advance(2 * time.Second)
	c31Advance(122 * time.Second)
	c31Advance(2 * time.Second)
	vReach("silent")
	f, _ = c31State(srv, 1)
	vAssert(!f, "C31.silent.gone")
	vAssert(c31LSPNeighbors(srv) == 0, "C31.silent.lsp")
}

// two neighbours on two interfaces: the LSP lists exactly the Up ones
func VC31_TwoNeighbors() {
	srv, ifa := c31Setup()
	srv.AddInterface(&InterfaceConfig{Name: "eth1", PointToPoint: true, Level2: &InterfaceLevelConfig{HelloInterval: 1, HoldingTimer: 3, Metric: 10}})
	ifb := srv.netIfaManager.getInterface("eth1")
	ifb.DeviceUpdate(&c31Dev{state: device.IfOperUp, addrs: []*bnet.Prefix{bnet.NewPfx(bnet.IPv4(0x0a000101), 24).Ptr()}})
	vSettle()
	srcA, srcB := ethernet.MACAddr{0, 1, 2, 3, 4, 5}, ethernet.MACAddr{0, 1, 2, 3, 4, 6}
	ma, mb := 1+vChoice(2), 1+vChoice(2)
	for i := 0; i < 2; i++ {
		ifa.processP2PHello(srcA, c31Hello(1, 30, ma, c31Own, 7))
		vSettle()
		ifb.processP2PHello(srcB, c31HelloFrom(2, 0x0a000102, 30, mb, c31Own, 7))
		vSettle()
	}
	vReach("two")
	_, sa := c31State(srv, 1)
	_, sb := c31State(srv, 2)
	want := 0
	if sa == packet.P2PAdjStateUp {
		want++
	}
	if sb == packet.P2PAdjStateUp {
		want++
	}
	vAssert((sa == packet.P2PAdjStateUp) == (ma == 2), "C31.two.a")
	vAssert((sb == packet.P2PAdjStateUp) == (mb == 2), "C31.two.b")
	vAssert(c31LSPNeighbors(srv) == want, "C31.two.lsp")
}

// flapping: after the adjacency came Up, three further hellos with symbolic three-way TLVs arrive; after each the state
// is decided by the most recent hello that carried a TLV (Up iff it lists this system and circuit) and the regenerated
// LSP follows — in particular the adjacency comes Up again after having gone Down.
func VC31_Flap() {
	srv, ifa := c31Setup()
	src := ethernet.MACAddr{0, 1, 2, 3, 4, 5}
	hold := uint16(ndU8())
	vAssume(hold >= 2)
	ifa.processP2PHello(src, c31Hello(1, hold, 2, c31Own, 7))
	vSettle()
	ifa.processP2PHello(src, c31Hello(1, hold, 2, c31Own, 7))
	vSettle()
	_, st := c31State(srv, 1)
	up := st == packet.P2PAdjStateUp
	vAssert(up, "C31.flap.up.first")
	for round := 0; round < 3; round++ {
		sys := types.SystemID{ndU8(), 2, 3, 4, 5, 6}
		circuit := ndU32()
		mode := vChoice(3)
		ifa.processP2PHello(src, c31Hello(1, hold, mode, sys, circuit))
		vSettle()
		if mode != 0 {
			up = mode == 2 && sys == c31Own && circuit == 7
		}
		found, st := c31State(srv, 1)
		vAssert(found, "C31.flap.known")
		vAssert((st == packet.P2PAdjStateUp) == up, "C31.flap.last.tlv.decides")
		vAssert((c31LSPNeighbors(srv) == 1) == up, "C31.flap.lsp.follows")
	}
	vReach("flap")
}

func VC31_Twin() {
	_, _ = c31Setup()
	vAssert(false, "C31.twin")
}
