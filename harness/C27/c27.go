package server

import (
	"io"
	"net"
	"time"

	bmppkt "github.com/bio-routing/bio-rd/protocols/bmp/packet"
)

// C27 — a monitored router cannot crash or exhaust the BMP receiver.
// (a) recvBMPMsg on a connection delivering arbitrary bytes; (b) bmppkt.Decode on the message recvBMPMsg returns
// (length field = number of bytes, as the framing guarantees) and, separately, on an arbitrary buffer.

type c27Conn struct {
	data []byte
	pos  int
}

func (c *c27Conn) Read(b []byte) (int, error) {
	if c.pos >= len(c.data) {
		return 0, io.EOF
	}
	n := copy(b, c.data[c.pos:])
	c.pos += n
	return n, nil
}
func (c *c27Conn) Write(b []byte) (int, error)        { return len(b), nil }
func (c *c27Conn) Close() error                       { return nil }
func (c *c27Conn) LocalAddr() net.Addr                { return nil }
func (c *c27Conn) RemoteAddr() net.Addr               { return nil }
func (c *c27Conn) SetDeadline(t time.Time) error      { return nil }
func (c *c27Conn) SetReadDeadline(t time.Time) error  { return nil }
func (c *c27Conn) SetWriteDeadline(t time.Time) error { return nil }

// the framing layer: n bytes arrive (all symbolic, including the 32-bit length field), then the stream ends
func VC27_Recv() {
	n := vParam("n")
	data := ndBytes(n)
	if n >= 6 {
		// length classes: everything up to a few bytes beyond what arrives, and everything above the default
		// buffer; the lengths in between behave like n+3 (short read) and are not enumerated one by one
		l := uint32(data[1])<<24 | uint32(data[2])<<16 | uint32(data[3])<<8 | uint32(data[4])
		vAssume(vOr(l <= uint32(n+3), l > 4096))
	}
	c := &c27Conn{data: data}
	msg, err := recvBMPMsg(c)
	vReach("recv")
	if err == nil {
		vAssert(len(msg) >= bmppkt.MinLen, "C27.recv.minlen")
		vAssert(len(msg) <= n, "C27.recv.notlongerthanreceived")
	}
}

// a complete message as recvBMPMsg hands it to the decoder: version 3, type by parameter, length field = len(msg)
func VC27_DecodeFramed() {
	n := vParam("n")
	msg := ndBytes(n)
	l := uint32(msg[1])<<24 | uint32(msg[2])<<16 | uint32(msg[3])<<8 | uint32(msg[4])
	vAssume(l == uint32(n))
	if t := vParam("type"); t >= 0 {
		vAssume(msg[5] == uint8(t))
	}
	m, err := bmppkt.Decode(msg)
	vReach("decode")
	vAssert(vImplies(err == nil, m != nil), "C27.decode.nonnil")
}

// the decoder's public entry on an arbitrary buffer (length field unrelated to the buffer)
func VC27_DecodeAny() {
	msg := ndBytes(vParam("n"))
	if t := vParam("type"); t >= 0 {
		vAssume(msg[5] == uint8(t))
	}
	_, _ = bmppkt.Decode(msg)
	vReach("decode")
}

// (c) the router's message processing on a framed message of any content: decode and act on it (peer tables,
// connection) without crashing. For peer-up the per-peer header and both OPEN messages are symbolic.
func VC27_Process() {
	n := vParam("n")
	msg := ndBytes(n)
	msg[0] = 3
	msg[1], msg[2], msg[3], msg[4] = uint8(n>>24), uint8(n>>16), uint8(n>>8), uint8(n)
	msg[5] = uint8(vParam("type"))
	r := newRouter(net.IP{10, 0, 255, 1}, 0, adjRIBInFactory{}, RouterConfig{})
	r.con = &c27Conn{}
	if vParam("after_up") == 2 {
		// the monitored router announces the same session twice (no peer-down in between)
		r.processMsg(c27PeerUp())
		r.processMsg(c27PeerUp())
	}
	if vParam("after_up") == 1 {
		// a session exists already (so that route monitoring / peer down for it are acted upon)
		r.processMsg(c27PeerUp())
		if vParam("type") == 0 || vParam("type") == 2 {
			// address the existing session: RD 0, peer 10.0.1.1 (flags stay symbolic)
			for i := 8; i < 16; i++ {
				msg[i] = 0
			}
			for i := 16; i < 28; i++ {
				msg[i] = 0
			}
			msg[28], msg[29], msg[30], msg[31] = 10, 0, 1, 1
		}
	}
	r.processMsg(msg)
	vReach("processed")
	r.cleanup()
	vReach("cleaned")
}

func c27PeerUp() []byte {
	open := func(as uint16, id uint32) []byte {
		m := make([]byte, 0, 29)
		for i := 0; i < 16; i++ {
			m = append(m, 0xff)
		}
		return append(m, 0, 29, 1, 4, uint8(as>>8), uint8(as), 0, 90, uint8(id>>24), uint8(id>>16), uint8(id>>8), uint8(id), 0)
	}
	b := []byte{0, 0, 0, 0, 0, 0, 0, 0, 0, 0}
	b = append(b, 0, 0, 0, 0, 0, 0, 0, 0, 0, 0, 0, 0, 10, 0, 1, 1)
	b = append(b, 0, 0, 0xfe, 0x4d, 10, 0, 0, 9, 0, 0, 0, 1, 0, 0, 0, 0)
	b = append(b, 0, 0, 0, 0, 0, 0, 0, 0, 0, 0, 0, 0, 10, 0, 255, 1, 0, 179, 0xc0, 1)
	b = append(b, open(65000, 0x0a00ff01)...)
	b = append(b, open(65101, 0x0a000101)...)
	l := 6 + len(b)
	return append([]byte{3, 0, 0, uint8(l >> 8), uint8(l), 3}, b...)
}

func VC27_Twin() {
	msg := ndBytes(6)
	_, _ = bmppkt.Decode(msg)
	vAssert(false, "C27.twin")
}
