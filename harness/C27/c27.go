package server

import (
	"io"
	"net"
	"time"

	bmppkt "github.com/bio-routing/bio-rd/protocols/bmp/packet"
)

// C27 — a monitored router cannot crash or exhaust the BMP receiver.
// (a) recvBMPMsg on a connection delivering arbitrary bytes; (b) bmppkt.Decode on the message recvBMPMsg returns
// (length field = number of bytes, as the framing guarantees) and, separately, on an arbitrary buffer.

type c27Conn struct {
	data []byte
	pos  int
}

func (c *c27Conn) Read(b []byte) (int, error) {
	if c.pos >= len(c.data) {
		return 0, io.EOF
	}
	n := copy(b, c.data[c.pos:])
	c.pos += n
	return n, nil
}
func (c *c27Conn) Write(b []byte) (int, error)        { return len(b), nil }
func (c *c27Conn) Close() error                       { return nil }
func (c *c27Conn) LocalAddr() net.Addr                { return nil }
func (c *c27Conn) RemoteAddr() net.Addr               { return nil }
func (c *c27Conn) SetDeadline(t time.Time) error      { return nil }
func (c *c27Conn) SetReadDeadline(t time.Time) error  { return nil }
func (c *c27Conn) SetWriteDeadline(t time.Time) error { return nil }

// the framing layer: n bytes arrive (all symbolic, including the 32-bit length field), then the stream ends
func VC27_Recv() {
	n := vParam("n")
	data := ndBytes(n)
	if n >= 6 {
		// length classes: everything up to a few bytes beyond what arrives, and everything above the default
		// buffer; the lengths in between behave like n+3 (short read) and are not enumerated one by one
		l := uint32(data[1])<<24 | uint32(data[2])<<16 | uint32(data[3])<<8 | uint32(data[4])
		vAssume(vOr(l <= uint32(n+3), l > 4096))
	}
	c := &c27Conn{data: data}
	msg, err := recvBMPMsg(c)
	vReach("recv")
	if err == nil {
		vAssert(len(msg) >= bmppkt.MinLen, "C27.recv.minlen")
		vAssert(len(msg) <= n, "C27.recv.notlongerthanreceived")
	}
}

// a complete message as recvBMPMsg hands it to the decoder: version 3, type by parameter, length field = len(msg)
func VC27_DecodeFramed() {
	n := vParam("n")
	msg := ndBytes(n)
	l := uint32(msg[1])<<24 | uint32(msg[2])<<16 | uint32(msg[3])<<8 | uint32(msg[4])
	vAssume(l == uint32(n))
	if t := vParam("type"); t >= 0 {
		vAssume(msg[5] == uint8(t))
	}
	m, err := bmppkt.Decode(msg)
	vReach("decode")
	vAssert(vImplies(err == nil, m != nil), "C27.decode.nonnil")
}

// the decoder's public entry on an arbitrary buffer (length field unrelated to the buffer)
func VC27_DecodeAny() {
	msg := ndBytes(vParam("n"))
	if t := vParam("type"); t >= 0 {
		vAssume(msg[5] == uint8(t))
	}
	_, _ = bmppkt.Decode(msg)
	vReach("decode")
}

func VC27_Twin() {
	msg := ndBytes(6)
	_, _ = bmppkt.Decode(msg)
	vAssert(false, "C27.twin")
}
