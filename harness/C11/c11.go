package adjRIBOut

import (
	bnet "github.com/bio-routing/bio-rd/net"
	"github.com/bio-routing/bio-rd/protocols/bgp/types"
	"github.com/bio-routing/bio-rd/route"
	"github.com/bio-routing/bio-rd/routingtable"
	"github.com/bio-routing/bio-rd/routingtable/filter"
	"github.com/bio-routing/bio-rd/routingtable/locRIB"
)

// C11 — add-path identifiers: different paths of a prefix get different identifiers, a withdrawal carries the
// identifier of its announcement, allocation keeps working while few identifiers are in use.

// a path whose attributes are drawn from a tiny symbolic domain: two paths are equal-or-different by solver choice,
// including in fields that only Compare (not necessarily the hash) looks at
func c11Path() *route.Path { return c11PathShape(vChoice(4)) }

func c11PathShape(shape int) *route.Path {
	nh := bnet.IPv4(0x0a090909)
	src := bnet.IPv4(0x0a090900 + uint32(ndU8()&1))
	b := &route.BGPPath{
		BGPPathA: &route.BGPPathA{NextHop: &nh, Source: &src, LocalPref: 100, MED: uint32(ndU8() & 1), EBGP: true, BGPIdentifier: 9,
			AtomicAggregate: ndBool(), OriginatorID: uint32(ndU8() & 1)},
		ASPath: types.NewASPath([]uint32{65009}), ASPathLen: 1,
	}
	switch shape { // which optional attribute the path carries
	case 1:
		c := types.Communities{uint32(ndU8() & 1)}
		b.Communities = &c
	case 2:
		b.UnknownAttributes = []types.UnknownPathAttribute{{Optional: true, Transitive: true, TypeCode: 200, Value: []byte{ndU8() & 1}}}
	case 3:
		b.BGPPathA.Aggregator = &types.Aggregator{ASN: uint16(ndU8() & 1), Address: 7}
	}
	return &route.Path{Type: route.BGPPathType, BGPPath: b}
}

// the manager alone: histories of adds and releases over three paths
func VC11_Manager() {
	k := vParam("k")
	m := newPathIDManager()
	sh := vParam("shapes")
	ps := []*route.Path{c11PathShape(sh % 4), c11PathShape(sh / 4 % 4), c11PathShape(sh / 16 % 4)}
	var cnt [3]int   // how often path i is currently held
	var id [3]uint32 // identifier handed out for path i (valid while cnt > 0)
	for step := 0; step < k; step++ {
		i := vChoice(3)
		if ndBool() {
			got, err := m.addPath(ps[i])
			vAssert(err == nil, "C11.manager.add.succeeds")
			if err != nil {
				return
			}
			if cnt[i] > 0 {
				vAssert(got == id[i], "C11.manager.add.stable")
			}
			id[i] = got
			cnt[i]++
		} else if cnt[i] > 0 {
			got, err := m.releasePath(ps[i])
			vAssert(err == nil, "C11.manager.release.succeeds")
			vAssert(got == id[i], "C11.manager.release.sameid")
			cnt[i]--
		}
		// held paths that differ have different identifiers; identical paths share one
		for a := 0; a < 3; a++ {
			for b := a + 1; b < 3; b++ {
				if cnt[a] > 0 && cnt[b] > 0 {
					same := ps[a].BGPPath.Compare(ps[b].BGPPath)
					vAssert(same == (id[a] == id[b]), "C11.manager.unique")
				}
			}
		}
	}
	vReach("manager")
	// 'used' is the number of identifiers in use: after releasing everything the manager is empty again
	for i := 0; i < 3; i++ {
		for cnt[i] > 0 {
			m.releasePath(ps[i])
			cnt[i]--
		}
	}
	vAssert(m.used == 0, "C11.manager.used.zero")
	vAssert(len(m.ids) == 0, "C11.manager.ids.empty")
	vAssert(len(m.idByPath) == 0, "C11.manager.bypath.empty")
}

// exhaustion only when (almost) all identifiers are in use: one step from a state with 'used' symbolic
func VC11_Exhaustion() {
	m := newPathIDManager()
	m.used = ndU32()
	m.last = ndU32()
	vAssume(m.used < maxUint32)
	_, err := m.addPath(c11Path())
	vReach("exhaustion")
	vAssert(err == nil, "C11.exhaustion.spurious")
}

// identifiers stay unique when the 32-bit allocation counter is anywhere (in particular about to wrap)
func VC11_Wrap() {
	m := newPathIDManager()
	p1, p2 := c11PathShape(0), c11PathShape(1)
	id1, err := m.addPath(p1)
	vAssert(err == nil, "C11.wrap.first")
	m.last = ndU32() // wherever the counter has got to since
	id2, err := m.addPath(p2)
	vReach("wrap")
	vAssert(err == nil, "C11.wrap.second")
	vAssert(id1 != id2, "C11.wrap.unique")
	id1b, _ := m.addPath(p1)
	vAssert(id1b == id1, "C11.wrap.stable")
}

type c11Client struct {
	adds, removes []uint32 // path identifiers seen
	addPfx        []*bnet.Prefix
}

func (c *c11Client) AddPath(pfx *bnet.Prefix, p *route.Path) error {
	c.adds = append(c.adds, p.BGPPath.PathIdentifier)
	c.addPfx = append(c.addPfx, pfx)
	return nil
}
func (c *c11Client) AddPathInitialDump(pfx *bnet.Prefix, p *route.Path) error { return c.AddPath(pfx, p) }
func (c *c11Client) RemovePath(pfx *bnet.Prefix, p *route.Path) bool {
	c.removes = append(c.removes, p.BGPPath.PathIdentifier)
	return true
}
func (c *c11Client) ReplacePath(*bnet.Prefix, *route.Path, *route.Path) {}
func (c *c11Client) RefreshRoute(*bnet.Prefix, []*route.Path)          {}
func (c *c11Client) ReplaceFilterChain(filter.Chain)                   {}
func (c *c11Client) EndOfRIB()                                         {}
func (c *c11Client) Dispose()                                          {}

// through the Adj-RIB-Out of an add-path session (iBGP, eBGP-learned paths: no rewrites)
func VC11_AdjRIBOut() {
	peerIP := bnet.IPv4FromOctets(169, 254, 100, 100).Ptr()
	sa := routingtable.SessionAttrs{RouterID: 1, PeerIP: peerIP, LocalIP: bnet.IPv4FromOctets(169, 254, 100, 1).Ptr(), Type: route.BGPPathType,
		IBGP: true, LocalASN: 65000, PeerASN: 65000, AddPathTX: true}
	aro := New(locRIB.New("inet.0"), sa, filter.NewAcceptAllFilterChain())
	cl := &c11Client{}
	aro.Register(cl)
	pfxA := bnet.NewPfx(bnet.IPv4FromOctets(10, 0, 0, 0), 8).Ptr()
	pfxB := bnet.NewPfx(bnet.IPv4FromOctets(10, 1, 0, 0), 16).Ptr()
	p1, p2 := c11Path(), c11Path()
	vAssume(!p1.BGPPath.Compare(p2.BGPPath))
	aro.AddPath(pfxA, p1)
	aro.AddPath(pfxA, p2)
	aro.AddPath(pfxB, p1) // the same path on a second prefix shares its identifier
	vReach("adjribout")
	vAssert(len(cl.adds) == 3, "C11.aro.announced")
	if len(cl.adds) != 3 {
		return
	}
	vAssert(cl.adds[0] != cl.adds[1], "C11.aro.unique.per.prefix")
	for _, r := range aro.Dump() {
		ps := r.Paths()
		if len(ps) == 2 {
			vAssert(ps[0].BGPPath.PathIdentifier != ps[1].BGPPath.PathIdentifier, "C11.aro.dump.unique")
		}
	}
	// withdraw in either order: each withdrawal carries the identifier of its announcement
	if ndBool() {
		aro.RemovePath(pfxA, p1)
		aro.RemovePath(pfxB, p1)
		vAssert(len(cl.removes) == 2, "C11.aro.withdrawn")
		if len(cl.removes) == 2 {
			vAssert(cl.removes[0] == cl.adds[0], "C11.aro.withdraw.sameid")
			vAssert(cl.removes[1] == cl.adds[2], "C11.aro.withdraw.sameid")
		}
	} else {
		aro.RemovePath(pfxA, p2)
		vAssert(len(cl.removes) == 1, "C11.aro.withdrawn")
		if len(cl.removes) == 1 {
			vAssert(cl.removes[0] == cl.adds[1], "C11.aro.withdraw.sameid")
		}
	}
}

func VC11_Twin() {
	m := newPathIDManager()
	_, _ = m.addPath(c11Path())
	vAssert(false, "C11.twin")
}
