package route

import (
	bnet "github.com/bio-routing/bio-rd/net"
	"github.com/bio-routing/bio-rd/protocols/bgp/types"
)

// C03 — BGPPath.Select against the decision process of RFC 4271 §9.1.2.2 / RFC 4456 §9 written on raw fields.

func c03Path() *BGPPath {
	nh := bnet.IPv6(ndU64(), ndU64())
	src := bnet.IPv6(ndU64(), ndU64())
	p := &BGPPath{
		BGPPathA: &BGPPathA{
			NextHop: &nh, Source: &src,
			LocalPref: ndU32(), MED: ndU32(), BGPIdentifier: ndU32(), OriginatorID: ndU32(),
			EBGP: ndBool(), Origin: ndU8(),
		},
		ASPathLen: ndU16(),
		// a populated AS_PATH (first ASN = neighbouring AS, symbolic): the decision must not depend on it beyond ASPathLen
		ASPath: &types.ASPath{{Type: types.ASSequence, ASNs: []uint32{ndU32(), ndU32()}}},
	}
	switch vChoice(5) { // 0: no CLUSTER_LIST attribute (nil); 1..4: list of length 0..3
	case 1:
		cl := make(types.ClusterList, 0)
		p.ClusterList = &cl
	case 2:
		cl := make(types.ClusterList, 1)
		p.ClusterList = &cl
	case 3:
		cl := make(types.ClusterList, 2)
		p.ClusterList = &cl
	case 4:
		cl := make(types.ClusterList, 3)
		p.ClusterList = &cl
	}
	return p
}

func c03ClLen(p *BGPPath) int {
	if p.ClusterList == nil {
		return 0
	}
	return len(*p.ClusterList)
}

func c03ID(p *BGPPath) uint32 {
	if p.BGPPathA.OriginatorID != 0 {
		return p.BGPPathA.OriginatorID
	}
	return p.BGPPathA.BGPIdentifier
}

// refStep returns (step, sign): the first decision step at which a and b differ and who wins (+1: a preferred).
func c03Ref(a, b *BGPPath) (int, int8) {
	x, y := a.BGPPathA, b.BGPPathA
	switch {
	case x.LocalPref > y.LocalPref:
		return 1, 1
	case x.LocalPref < y.LocalPref:
		return 1, -1
	case a.ASPathLen < b.ASPathLen:
		return 2, 1
	case a.ASPathLen > b.ASPathLen:
		return 2, -1
	case x.Origin < y.Origin:
		return 3, 1
	case x.Origin > y.Origin:
		return 3, -1
	case x.MED < y.MED:
		return 4, 1
	case x.MED > y.MED:
		return 4, -1
	}
	if x.EBGP != y.EBGP {
		if x.EBGP {
			return 5, 1
		}
		return 5, -1
	}
	ia, ib := c03ID(a), c03ID(b)
	switch {
	case ia < ib:
		return 6, 1
	case ia > ib:
		return 6, -1
	}
	ca, cb := c03ClLen(a), c03ClLen(b)
	switch {
	case ca < cb:
		return 7, 1
	case ca > cb:
		return 7, -1
	}
	s, t := x.Source, y.Source
	switch {
	case s.Higher() < t.Higher():
		return 8, 1
	case s.Higher() > t.Higher():
		return 8, -1
	case s.Lower() < t.Lower():
		return 8, 1
	case s.Lower() > t.Lower():
		return 8, -1
	}
	return 0, 0 // the RFC steps do not separate them
}

func VC03_Steps() {
	a, b := c03Path(), c03Path()
	step, want := c03Ref(a, b)
	got := a.Select(b)
	rev := b.Select(a)
	vReach("steps")
	vObserve(uint64(uint8(got)))
	okF, okR := got == want, rev == -want
	vAssert(vImplies(step == 1, okF), "C03.localpref")
	vAssert(vImplies(step == 1, okR), "C03.localpref.rev")
	vAssert(vImplies(step == 2, okF), "C03.aspathlen")
	vAssert(vImplies(step == 2, okR), "C03.aspathlen.rev")
	vAssert(vImplies(step == 3, okF), "C03.origin")
	vAssert(vImplies(step == 3, okR), "C03.origin.rev")
	vAssert(vImplies(step == 4, okF), "C03.med")
	vAssert(vImplies(step == 4, okR), "C03.med.rev")
	vAssert(vImplies(step == 5, okF), "C03.ebgp")
	vAssert(vImplies(step == 5, okR), "C03.ebgp.rev")
	vAssert(vImplies(step == 6, okF), "C03.identifier")
	vAssert(vImplies(step == 6, okR), "C03.identifier.rev")
	vAssert(vImplies(step == 7, okF), "C03.clusterlist")
	vAssert(vImplies(step == 7, okR), "C03.clusterlist.rev")
	vAssert(vImplies(step == 8, okF), "C03.peeraddr")
	vAssert(vImplies(step == 8, okR), "C03.peeraddr.rev")
}

// The same through Route.PathSelection: the best path of a two-path route is the RFC winner.
func VC03_BestPath() {
	a, b := c03Path(), c03Path()
	step, want := c03Ref(a, b)
	vAssume(step != 0)
	pa := &Path{Type: BGPPathType, BGPPath: a}
	pb := &Path{Type: BGPPathType, BGPPath: b}
	pfx := bnet.NewPfx(bnet.IPv4(0x0a000000), 8)
	r := NewRoute(&pfx, pa)
	r.AddPath(pb)
	r.PathSelection()
	best := r.BestPath()
	vReach("bestpath")
	if want == 1 {
		vAssert(best == pa, "C03.bestpath")
	} else {
		vAssert(best == pb, "C03.bestpath")
	}
}

func VC03_Twin() {
	a, b := c03Path(), c03Path()
	_ = a.Select(b)
	vAssert(false, "C03.twin")
}
