package packet

import (
	"bytes"

	bnet "github.com/bio-routing/bio-rd/net"
	"github.com/bio-routing/bio-rd/protocols/bgp/types"
	"github.com/bio-routing/bio-rd/route"
)

// C17 — everything bio-rd serialises is well-formed (<= 4096 bytes, consistent lengths) and decodes to the same content.
// Shapes (counts, lengths) are concrete and chosen around every encoding boundary; contents are symbolic.

func c17Opt() (*EncodeOptions, *DecodeOptions) {
	as4 := vParam("as4") == 1
	return &EncodeOptions{Use32BitASN: as4}, &DecodeOptions{Use32BitASN: as4}
}

// one attribute: Serialize -> decodePathAttr, returned length == bytes written == bytes consumed
func c17Attr(pa *PathAttribute) *PathAttribute {
	eo, do := c17Opt()
	buf := bytes.NewBuffer(nil)
	l := pa.Serialize(buf, eo)
	out := buf.Bytes()
	vReach("attr")
	_ = l // the returned length feeds the UPDATE budget (C18); it is not part of what the peer sees
	// independent TLV walk (RFC 4271 4.3): flags, type, 1- or 2-byte length cover the attribute exactly
	if len(out) >= 3 {
		ext := out[0]&0x10 != 0
		var vlen, hdr int
		if ext {
			vAssert(len(out) >= 4, "C17.attr.header")
			if len(out) >= 4 {
				vlen, hdr = int(out[2])<<8|int(out[3]), 4
			}
		} else {
			vlen, hdr = int(out[2]), 3
		}
		vAssert(hdr+vlen == len(out), "C17.attr.lengthField")
	}
	rd := bytes.NewBuffer(out)
	got, consumed, err := decodePathAttr(rd, do)
	vAssert(err == nil, "C17.attr.decodes")
	if err != nil {
		return nil
	}
	vAssert(rd.Len() == 0, "C17.attr.consumedAll")
	_ = consumed
	vAssert(got.TypeCode == pa.TypeCode, "C17.attr.type")
	return got
}

func VC17_ASPath() {
	n1, n2 := vParam("n1"), vParam("n2")
	as4 := vParam("as4") == 1
	mk := func(n int, t uint8) types.ASPathSegment {
		s := types.ASPathSegment{Type: t, ASNs: make([]uint32, n)}
		for i := range s.ASNs {
			if as4 {
				s.ASNs[i] = ndU32()
			} else {
				s.ASNs[i] = uint32(ndU16())
			}
		}
		return s
	}
	ap := types.ASPath{mk(n1, types.ASSequence)}
	if n2 > 0 {
		ap = append(ap, mk(n2, types.ASSet))
	}
	got := c17Attr(&PathAttribute{TypeCode: ASPathAttr, Value: &ap})
	if got == nil {
		return
	}
	gp, ok := got.Value.(*types.ASPath)
	vAssert(ok, "C17.aspath.valuetype")
	if !ok {
		return
	}
	vAssert(len(*gp) == len(ap), "C17.aspath.segments")
	if len(*gp) != len(ap) {
		return
	}
	for i := range ap {
		vAssert((*gp)[i].Type == ap[i].Type, "C17.aspath.segtype")
		vAssert(len((*gp)[i].ASNs) == len(ap[i].ASNs), "C17.aspath.seglen")
		if len((*gp)[i].ASNs) == len(ap[i].ASNs) {
			same := true
			for j := range ap[i].ASNs {
				same = vAnd(same, (*gp)[i].ASNs[j] == ap[i].ASNs[j])
			}
			vAssert(same, "C17.aspath.asns")
		}
	}
}

// prepending (export to eBGP, policy action) keeps every segment within 1..255 ASNs and the result round-trips
func VC17_Prepend() {
	n, times := vParam("n"), vParam("times")
	asns := make([]uint32, n)
	for i := range asns {
		asns[i] = ndU32()
	}
	nh := bnet.IPv4(1)
	b := &route.BGPPath{BGPPathA: &route.BGPPathA{NextHop: &nh, Source: &nh}, ASPath: &types.ASPath{{Type: types.ASSequence, ASNs: asns}}}
	own := ndU32()
	b.Prepend(own, uint16(times))
	total := 0
	for _, seg := range *b.ASPath {
		vAssert(len(seg.ASNs) >= 1, "C17.prepend.segment.nonempty")
		vAssert(len(seg.ASNs) <= 255, "C17.prepend.segment.max255")
		total += len(seg.ASNs)
	}
	vAssert(total == n+times, "C17.prepend.total")
	got := c17Attr(&PathAttribute{TypeCode: ASPathAttr, Value: b.ASPath})
	if got == nil {
		return
	}
	gp := got.Value.(*types.ASPath)
	vAssert(len(*gp) == len(*b.ASPath), "C17.prepend.roundtrip.segments")
	if len(*gp) == len(*b.ASPath) {
		same := true
		for i := range *gp {
			same = vAnd(same, len((*gp)[i].ASNs) == len((*b.ASPath)[i].ASNs))
		}
		vAssert(same, "C17.prepend.roundtrip.seglens")
		if same {
			for i := range *gp {
				for j := range (*gp)[i].ASNs {
					same = vAnd(same, (*gp)[i].ASNs[j] == (*b.ASPath)[i].ASNs[j])
				}
			}
			vAssert(same, "C17.prepend.roundtrip.asns")
		}
	}
}

func VC17_Communities() {
	n := vParam("n")
	cs := make(types.Communities, n)
	for i := range cs {
		cs[i] = ndU32()
	}
	got := c17Attr(&PathAttribute{TypeCode: CommunitiesAttr, Value: &cs})
	if got == nil {
		return
	}
	gc, ok := got.Value.(*types.Communities)
	vAssert(ok, "C17.communities.valuetype")
	if ok {
		vAssert(len(*gc) == n, "C17.communities.count")
		if len(*gc) == n {
			same := true
			for i := range cs {
				same = vAnd(same, (*gc)[i] == cs[i])
			}
			vAssert(same, "C17.communities.values")
		}
	}
}

func VC17_LargeCommunities() {
	n := vParam("n")
	cs := make(types.LargeCommunities, n)
	for i := range cs {
		cs[i] = types.LargeCommunity{GlobalAdministrator: ndU32(), DataPart1: ndU32(), DataPart2: ndU32()}
	}
	got := c17Attr(&PathAttribute{TypeCode: LargeCommunitiesAttr, Value: &cs})
	if got == nil {
		return
	}
	gc, ok := got.Value.(*types.LargeCommunities)
	vAssert(ok, "C17.largecommunities.valuetype")
	if ok {
		vAssert(len(*gc) == n, "C17.largecommunities.count")
		if len(*gc) == n {
			same := true
			for i := range cs {
				same = vAnd(same, (*gc)[i] == cs[i])
			}
			vAssert(same, "C17.largecommunities.values")
		}
	}
}

func VC17_ClusterList() {
	n := vParam("n")
	cl := make(types.ClusterList, n)
	for i := range cl {
		cl[i] = ndU32()
	}
	got := c17Attr(&PathAttribute{TypeCode: ClusterListAttr, Value: &cl})
	if got == nil {
		return
	}
	gc, ok := got.Value.(*types.ClusterList)
	vAssert(ok, "C17.clusterlist.valuetype")
	if ok {
		vAssert(len(*gc) == n, "C17.clusterlist.count")
		if len(*gc) == n {
			same := true
			for i := range cl {
				same = vAnd(same, (*gc)[i] == cl[i])
			}
			vAssert(same, "C17.clusterlist.values")
		}
	}
}

// an unknown transitive attribute of n value bytes, as PathAttributes() builds it from a stored path
func VC17_Unknown() {
	n := vParam("n")
	val := make([]byte, n)
	for i := range val {
		val[i] = ndU8()
	}
	nh := bnet.IPv4(1)
	p := &route.Path{Type: route.BGPPathType, BGPPath: &route.BGPPath{BGPPathA: &route.BGPPathA{NextHop: &nh, Source: &nh}, ASPath: &types.ASPath{},
		UnknownAttributes: []types.UnknownPathAttribute{{Optional: true, Transitive: true, TypeCode: 200, Value: val}}}}
	pas, err := PathAttributes(p, false, false)
	vAssert(err == nil, "C17.unknown.pathattributes")
	var last *PathAttribute
	for pa := pas; pa != nil; pa = pa.Next {
		last = pa
	}
	vAssert(last != nil && last.TypeCode == 200, "C17.unknown.present")
	got := c17Attr(last)
	if got == nil {
		return
	}
	gv, ok := got.Value.([]byte)
	vAssert(ok, "C17.unknown.valuetype")
	if ok {
		vAssert(len(gv) == n, "C17.unknown.len")
		if len(gv) == n {
			same := true
			for i := range val {
				same = vAnd(same, gv[i] == val[i])
			}
			vAssert(same, "C17.unknown.value")
		}
	}
}

// a whole UPDATE built the way the update sender builds it: PathAttributes + NLRI -> SerializeUpdate -> Decode
func VC17_Update() {
	as4 := vParam("as4") == 1
	addPath := vParam("addpath") == 1
	ibgp := vParam("ibgp") == 1
	rr := vParam("rr") == 1
	nh := bnet.IPv4(ndU32())
	src := bnet.IPv4(ndU32())
	asns := []uint32{uint32(ndU16()), uint32(ndU16())}
	coms := types.Communities{ndU32()}
	lcoms := types.LargeCommunities{{GlobalAdministrator: ndU32(), DataPart1: ndU32(), DataPart2: ndU32()}}
	cl := types.ClusterList{ndU32()}
	p := &route.Path{Type: route.BGPPathType, BGPPath: &route.BGPPath{
		BGPPathA: &route.BGPPathA{NextHop: &nh, Source: &src, LocalPref: ndU32(), MED: ndU32(), Origin: ndU8() % 3, OriginatorID: ndU32(), AtomicAggregate: ndBool()},
		ASPath:   &types.ASPath{{Type: types.ASSequence, ASNs: asns}}, Communities: &coms, LargeCommunities: &lcoms, ClusterList: &cl}}
	pas, err := PathAttributes(p, ibgp, rr)
	vAssert(err == nil, "C17.update.pathattributes")
	plen := uint8(vParam("pfxlen"))
	a1 := ndU32()
	if plen < 32 {
		a1 = a1 >> (32 - plen) << (32 - plen)
	}
	if plen == 0 {
		a1 = 0
	}
	pfx := bnet.NewPfx(bnet.IPv4(a1), plen)
	u := &BGPUpdate{PathAttributes: pas, NLRI: &NLRI{PathIdentifier: ndU32(), Prefix: &pfx}}
	out, err := u.SerializeUpdate(&EncodeOptions{Use32BitASN: as4, UseAddPath: addPath})
	vReach("update")
	vAssert(err == nil, "C17.update.serializes")
	if err != nil {
		return
	}
	vAssert(len(out) <= MaxLen, "C17.update.maxlen")
	vAssert(int(out[16])<<8|int(out[17]) == len(out), "C17.update.headerLength")
	msg, err := Decode(bytes.NewBuffer(out), &DecodeOptions{Use32BitASN: as4, AddPathIPv4Unicast: addPath})
	vAssert(err == nil, "C17.update.decodes")
	if err != nil {
		return
	}
	d, ok := msg.Body.(*BGPUpdate)
	vAssert(ok, "C17.update.body")
	if !ok {
		return
	}
	vAssert(d.NLRI != nil, "C17.update.nlri.present")
	if d.NLRI != nil {
		vAssert(d.NLRI.Next == nil, "C17.update.nlri.single")
		vAssert(*d.NLRI.Prefix == pfx, "C17.update.nlri.prefix")
		if addPath {
			vAssert(d.NLRI.PathIdentifier == u.NLRI.PathIdentifier, "C17.update.nlri.pathid")
		}
	}
	seenOrigin, seenASPath, seenNH, seenLP, seenMED, seenCom, seenLCom, seenCL, seenOrig := false, false, false, false, false, false, false, false, false
	for pa := d.PathAttributes; pa != nil; pa = pa.Next {
		switch pa.TypeCode {
		case OriginAttr:
			seenOrigin = true
			vAssert(pa.Value.(uint8) == p.BGPPath.BGPPathA.Origin, "C17.update.origin")
		case ASPathAttr:
			seenASPath = true
			ap := pa.Value.(*types.ASPath)
			vAssert(len(*ap) == 1, "C17.update.aspath.segments")
			if len(*ap) == 1 && len((*ap)[0].ASNs) == 2 {
				vAssert((*ap)[0].ASNs[0] == asns[0], "C17.update.aspath.asn0")
				vAssert((*ap)[0].ASNs[1] == asns[1], "C17.update.aspath.asn1")
			} else {
				vAssert(false, "C17.update.aspath.shape")
			}
		case NextHopAttr:
			seenNH = true
			vAssert(*pa.Value.(*bnet.IP) == nh, "C17.update.nexthop")
		case LocalPrefAttr:
			seenLP = true
			vAssert(pa.Value.(uint32) == p.BGPPath.BGPPathA.LocalPref, "C17.update.localpref")
		case MEDAttr:
			seenMED = true
			vAssert(pa.Value.(uint32) == p.BGPPath.BGPPathA.MED, "C17.update.med")
		case CommunitiesAttr:
			seenCom = true
			c := pa.Value.(*types.Communities)
			vAssert(len(*c) == 1 && (*c)[0] == coms[0], "C17.update.communities")
		case LargeCommunitiesAttr:
			seenLCom = true
			c := pa.Value.(*types.LargeCommunities)
			vAssert(len(*c) == 1 && (*c)[0] == lcoms[0], "C17.update.largecommunities")
		case ClusterListAttr:
			seenCL = true
			c := pa.Value.(*types.ClusterList)
			vAssert(len(*c) == 1 && (*c)[0] == cl[0], "C17.update.clusterlist")
		case OriginatorIDAttr:
			seenOrig = true
			vAssert(pa.Value.(uint32) == p.BGPPath.BGPPathA.OriginatorID, "C17.update.originator")
		}
	}
	vAssert(seenOrigin, "C17.update.has.origin")
	vAssert(seenASPath, "C17.update.has.aspath")
	vAssert(seenNH, "C17.update.has.nexthop")
	vAssert(seenCom, "C17.update.has.communities")
	vAssert(seenLCom, "C17.update.has.largecommunities")
	vAssert(seenLP == ibgp, "C17.update.has.localpref")
	vAssert(seenCL == rr, "C17.update.has.clusterlist")
	vAssert(seenOrig == rr, "C17.update.has.originator")
	vAssert(seenMED == (p.BGPPath.BGPPathA.MED != 0), "C17.update.has.med")
}

// size limit: an UPDATE with a long AS_PATH (extended length) and a community list chosen so that the total lands in a
// window around 4096 bytes: whatever SerializeUpdate returns without error is <= 4096 bytes and its header says so
func VC17_SizeLimit() {
	ncom := vParam("ncom")
	plen := uint8(vParam("pfxlen"))
	asns := make([]uint32, 100)
	for i := range asns {
		asns[i] = uint32(i + 1)
	}
	coms := make(types.Communities, ncom)
	nh := bnet.IPv4(1)
	p := &route.Path{Type: route.BGPPathType, BGPPath: &route.BGPPath{BGPPathA: &route.BGPPathA{NextHop: &nh, Source: &nh},
		ASPath: &types.ASPath{{Type: types.ASSequence, ASNs: asns}}, Communities: &coms}}
	pas, _ := PathAttributes(p, false, false)
	pfx := bnet.NewPfx(bnet.IPv4(0), plen)
	u := &BGPUpdate{PathAttributes: pas, NLRI: &NLRI{Prefix: &pfx}}
	out, err := u.SerializeUpdate(&EncodeOptions{Use32BitASN: true})
	vReach("sizelimit")
	if err == nil {
		vAssert(len(out) <= MaxLen, "C17.sizelimit.maxlen")
		vAssert(int(out[16])<<8|int(out[17]) == len(out), "C17.sizelimit.headerLength")
		_, derr := Decode(bytes.NewBuffer(out), &DecodeOptions{Use32BitASN: true})
		vAssert(derr == nil, "C17.sizelimit.decodes")
	}
	vObserve(uint64(len(out)))
}

func VC17_Fixed() {
	k := SerializeKeepaliveMsg()
	vAssert(len(k) == 19, "C17.keepalive.len")
	m, err := Decode(bytes.NewBuffer(k), &DecodeOptions{})
	vAssert(err == nil && m.Header.Type == KeepaliveMsg, "C17.keepalive.decodes")
	n := &BGPNotification{ErrorCode: 1 + ndU8()%6, ErrorSubcode: ndU8()}
	nb := SerializeNotificationMsg(n)
	vAssert(len(nb) == 21, "C17.notification.len")
	vAssert(int(nb[16])<<8|int(nb[17]) == 21, "C17.notification.headerLength")
	vAssert(nb[19] == n.ErrorCode, "C17.notification.code")
	vAssert(nb[20] == n.ErrorSubcode, "C17.notification.subcode")
	o := &BGPOpen{Version: 4, ASN: ndU16(), HoldTime: ndU16(), BGPIdentifier: ndU32(),
		OptParams: []OptParam{{Type: CapabilitiesParamType, Value: Capabilities{{Code: ASN4CapabilityCode, Value: ASN4Capability{ASN4: ndU32()}}}}}}
	vAssume(o.HoldTime == 0 || o.HoldTime >= 3)
	vAssume(o.BGPIdentifier != 0)
	ob := SerializeOpenMsg(o)
	vReach("fixed")
	vAssert(len(ob) <= MaxLen, "C17.open.maxlen")
	vAssert(int(ob[16])<<8|int(ob[17]) == len(ob), "C17.open.headerLength")
	om, err := Decode(bytes.NewBuffer(ob), &DecodeOptions{})
	vAssert(err == nil, "C17.open.decodes")
	if err == nil {
		d := om.Body.(*BGPOpen)
		vAssert(d.ASN == o.ASN, "C17.open.asn")
		vAssert(d.HoldTime == o.HoldTime, "C17.open.holdtime")
		vAssert(d.BGPIdentifier == o.BGPIdentifier, "C17.open.identifier")
		vAssert(len(d.OptParams) == 1, "C17.open.optparams")
	}
}

func VC17_Twin() {
	cs := types.Communities{ndU32()}
	_ = c17Attr(&PathAttribute{TypeCode: CommunitiesAttr, Value: &cs})
	vAssert(false, "C17.twin")
}
