package adjRIBOut

import (
	bnet "github.com/bio-routing/bio-rd/net"
	"github.com/bio-routing/bio-rd/protocols/bgp/packet"
	"github.com/bio-routing/bio-rd/protocols/bgp/types"
	"github.com/bio-routing/bio-rd/route"
	"github.com/bio-routing/bio-rd/routingtable"
	"github.com/bio-routing/bio-rd/routingtable/filter"
	"github.com/bio-routing/bio-rd/routingtable/locRIB"
)

// C09 — export eligibility and attribute rewriting: one symbolic path through a real AdjRIBOut with fully symbolic
// session attributes; every clause of the statement asserted on what the Adj-RIB-Out stores / the attribute list.

func c09Community() uint32 {
	switch vChoice(3) {
	case 0:
		return types.WellKnownCommunityNoExport
	case 1:
		return types.WellKnownCommunityNoAdvertise
	}
	return 65000<<16 | 7
}

func VC09_Export() {
	peerIP := bnet.IPv4FromOctets(169, 254, 100, 100).Ptr()
	localIP := bnet.IPv4FromOctets(169, 254, 100, 1).Ptr()
	other := bnet.IPv4FromOctets(10, 9, 9, 9)
	ibgp := ndBool()
	localASN := uint32(65000)
	peerASN := uint32(65001)
	if ibgp {
		peerASN = localASN
	}
	sa := routingtable.SessionAttrs{RouterID: 1, PeerIP: peerIP, LocalIP: localIP, Type: route.BGPPathType, IBGP: ibgp, LocalASN: localASN, PeerASN: peerASN,
		RouteServerClient: vAnd(!ibgp, ndBool()), RouteReflectorClient: vAnd(ibgp, ndBool()), ClusterID: ndU32(),
		PeerRoleEnabled: ndBool(), PeerRoleAdvByPeer: ndBool(), PeerRoleRemote: ndU8() % 5, PeerRoleLocal: ndU8() % 5}
	aro := New(locRIB.New("inet.0"), sa, filter.NewAcceptAllFilterChain())

	src := other
	fromPeer := ndBool()
	if fromPeer {
		src = *peerIP
	}
	nh := bnet.IPv4FromOctets(10, 9, 9, 1)
	b := &route.BGPPath{BGPPathA: &route.BGPPathA{NextHop: &nh, Source: &src, LocalPref: ndU32(), MED: ndU32(), EBGP: ndBool(), BGPIdentifier: 9,
		OriginatorID: ndU32(), OnlyToCustomer: ndU32()}, ASPath: types.NewASPath([]uint32{65009}), ASPathLen: 1}
	var coms types.Communities
	ncom := vParam("ncom")
	for i := 0; i < ncom; i++ {
		coms = append(coms, c09Community())
	}
	if ncom > 0 {
		b.Communities = &coms
	}
	hadCL := ndBool()
	if hadCL {
		cl := types.ClusterList{ndU32()}
		b.ClusterList = &cl
	}
	p := &route.Path{Type: route.BGPPathType, BGPPath: b}
	origOrig, origOTC := b.BGPPathA.OriginatorID, b.BGPPathA.OnlyToCustomer
	learnedEBGP := b.BGPPathA.EBGP

	pfx := bnet.NewPfx(bnet.IPv4FromOctets(10, 0, 0, 0), 8).Ptr()
	aro.AddPath(pfx, p)
	vReach("export")
	var stored *route.Path
	for _, r := range aro.Dump() {
		if len(r.Paths()) > 0 {
			stored = r.Paths()[0]
		}
	}
	advertised := stored != nil
	hasNoAdv, hasNoExp := false, false
	for _, c := range coms {
		if c == types.WellKnownCommunityNoAdvertise {
			hasNoAdv = true
		}
		if c == types.WellKnownCommunityNoExport {
			hasNoExp = true
		}
	}
	rolesActive := !ibgp && sa.PeerRoleEnabled && sa.PeerRoleAdvByPeer
	towardsUp := sa.PeerRoleRemote == packet.PeerRoleRoleProvider || sa.PeerRoleRemote == packet.PeerRoleRolePeer || sa.PeerRoleRemote == packet.PeerRoleRoleRS
	towardsDown := sa.PeerRoleRemote == packet.PeerRoleRoleCustomer || sa.PeerRoleRemote == packet.PeerRoleRolePeer || sa.PeerRoleRemote == packet.PeerRoleRoleRSClient

	// --- never advertised
	vAssert(vImplies(hasNoAdv, !advertised), "C09.noadvertise")
	vAssert(vImplies(vAnd(hasNoExp, !ibgp), !advertised), "C09.noexport.ebgp")
	vAssert(vImplies(fromPeer, !advertised), "C09.splithorizon")
	vAssert(vImplies(vAnd(vAnd(ibgp, !learnedEBGP), !sa.RouteReflectorClient), !advertised), "C09.ibgp.to.nonclient")
	vAssert(vImplies(vAnd(vAnd(rolesActive, origOTC != 0), towardsUp), !advertised), "C09.otc.upstream")
	// --- everything else is advertised
	blocked := vOr(vOr(hasNoAdv, vAnd(hasNoExp, !ibgp)), vOr(fromPeer, vOr(vAnd(vAnd(ibgp, !learnedEBGP), !sa.RouteReflectorClient), vAnd(vAnd(rolesActive, origOTC != 0), towardsUp))))
	vAssert(vImplies(!blocked, advertised), "C09.advertised.otherwise")
	if !advertised {
		return
	}
	sb := stored.BGPPath
	// --- rewriting
	if !ibgp && !sa.RouteServerClient {
		first := uint32(0)
		if sb.ASPath != nil && len(*sb.ASPath) > 0 && len((*sb.ASPath)[0].ASNs) > 0 {
			first = (*sb.ASPath)[0].ASNs[0]
		}
		vAssert(first == localASN, "C09.ebgp.prepend")
		vAssert(sb.ASPathLen == 2, "C09.ebgp.aspathlen")
		vAssert(*sb.BGPPathA.NextHop == *localIP, "C09.ebgp.nexthopself")
	} else {
		vAssert(sb.ASPathLen == 1, "C09.noprepend")
		vAssert(*sb.BGPPathA.NextHop == nh, "C09.nexthop.unchanged")
	}
	if sa.RouteReflectorClient {
		vAssert(sb.BGPPathA.OriginatorID != 0, "C09.rr.originator.present")
		vAssert(vImplies(origOrig != 0, sb.BGPPathA.OriginatorID == origOrig), "C09.rr.originator.kept")
		vAssert(sb.ClusterList != nil && len(*sb.ClusterList) >= 1, "C09.rr.clusterlist.present")
		if sb.ClusterList != nil && len(*sb.ClusterList) >= 1 {
			vAssert((*sb.ClusterList)[0] == sa.ClusterID, "C09.rr.clusterlist.first")
			want := 1
			if hadCL {
				want = 2
			}
			vAssert(len(*sb.ClusterList) == want, "C09.rr.clusterlist.len")
		}
	}
	if rolesActive {
		vAssert(vImplies(vAnd(origOTC == 0, towardsDown), sb.BGPPathA.OnlyToCustomer == localASN), "C09.otc.added")
		vAssert(vImplies(origOTC != 0, sb.BGPPathA.OnlyToCustomer == origOTC), "C09.otc.kept")
	}
	// LOCAL_PREF is only sent to iBGP peers (attribute list the update sender builds for this session)
	pas, err := packet.PathAttributes(stored, ibgp, sa.RouteReflectorClient)
	vAssert(err == nil, "C09.attributes")
	hasLP := false
	for pa := pas; pa != nil; pa = pa.Next {
		if pa.TypeCode == packet.LocalPrefAttr {
			hasLP = true
		}
	}
	vAssert(hasLP == ibgp, "C09.localpref.only.ibgp")
}

func VC09_Twin() {
	_ = c09Community()
	vAssert(false, "C09.twin")
}
