package server

import (
	"net"
	"time"

	bnet "github.com/bio-routing/bio-rd/net"
	"github.com/bio-routing/bio-rd/protocols/bgp/packet"
	"github.com/bio-routing/bio-rd/routingtable"
	"github.com/bio-routing/bio-rd/routingtable/filter"
	"github.com/bio-routing/bio-rd/routingtable/locRIB"
)

// C22 — OPEN negotiation admits only valid sessions and negotiates correctly.

type c22Conn struct {
	net.Conn
	notifs              int
	notifCode, notifSub uint8
	keepalives          int
	closed              bool
	closedBeforeNotif   bool
}

func (c *c22Conn) Write(b []byte) (int, error) {
	if len(b) >= 19 && b[18] == packet.KeepaliveMsg {
		c.keepalives++
	}
	if len(b) >= 21 && b[18] == packet.NotificationMsg {
		if c.closed {
			c.closedBeforeNotif = true
		}
		c.notifs++
		c.notifCode, c.notifSub = b[19], b[20]
	}
	return len(b), nil
}
func (c *c22Conn) Close() error { c.closed = true; return nil }

func c22Peer(localAS, peerAS, routerID uint32, hold time.Duration) (*peer, *FSM, *c22Conn) {
	p := &peer{
		addr: bnet.IPv4FromOctets(169, 254, 100, 100).Ptr(), localAddr: bnet.IPv4FromOctets(169, 254, 100, 1).Ptr(),
		localASN: localAS, peerASN: peerAS, routerID: routerID, holdTime: hold,
		ipv4: &peerAddressFamily{rib: locRIB.New("inet.0"), importFilterChain: filter.NewAcceptAllFilterChain(), exportFilterChain: filter.NewAcceptAllFilterChain()},
		ipv6: &peerAddressFamily{rib: locRIB.New("inet6.0"), importFilterChain: filter.NewAcceptAllFilterChain(), exportFilterChain: filter.NewAcceptAllFilterChain()},
	}
	fsm := newFSM(p)
	p.fsms = append(p.fsms, fsm)
	cc := &c22Conn{}
	fsm.con = cc
	fsm.connectRetryTimer = time.NewTimer(time.Minute)
	return p, fsm, cc
}

// (A) the fixed part of the OPEN on the wire, through the real decoder
func VC22_Bytes() {
	localAS := uint32(65000)
	peerAS := uint32(ndU16())
	p, fsm, cc := c22Peer(localAS, peerAS, ndU32(), 90*time.Second)
	s := newOpenSentState(fsm)
	fsm.state = s
	msg := make([]byte, packet.MaxLen)
	for i := 0; i < 16; i++ {
		msg[i] = 0xff
	}
	msg[16], msg[17], msg[18] = 0, 29, packet.OpenMsg
	msg[19] = ndU8() // version
	as := ndU16()
	msg[20], msg[21] = uint8(as>>8), uint8(as)
	ht := ndU16()
	msg[22], msg[23] = uint8(ht>>8), uint8(ht)
	id := ndU32()
	msg[24], msg[25], msg[26], msg[27] = uint8(id>>24), uint8(id>>16), uint8(id>>8), uint8(id)
	msg[28] = 0
	next, _ := s.msgReceived(msg, fsm.decodeOptions())
	vReach("bytes")
	_, toConfirm := next.(*openConfirmState)
	_, toIdle := next.(*idleState)
	ibgp := localAS == peerAS
	okVersion := msg[19] == 4
	okID := id != 0 && !(ibgp && id == p.routerID)
	okHT := ht == 0 || ht >= 3
	okAS := uint32(as) == peerAS
	valid := vAnd(vAnd(okVersion, okID), vAnd(okHT, okAS))
	vObserve(b2u22(toConfirm))
	vAssert(toConfirm == valid, "C22.bytes.admitted")
	vAssert(vImplies(!valid, toIdle), "C22.bytes.rejected.idle")
	vAssert(vImplies(!valid, cc.notifs == 1), "C22.bytes.rejected.notification")
	vAssert(vImplies(!valid, cc.notifCode == packet.OpenMessageError), "C22.bytes.rejected.code")
	vAssert(vImplies(!valid, cc.closed), "C22.bytes.rejected.closed")
	vAssert(!cc.closedBeforeNotif, "C22.bytes.notification.before.close")
	// subcodes where only one thing is wrong
	vAssert(vImplies(vAnd(!okVersion, vAnd(okID, vAnd(okHT, okAS))), cc.notifSub == packet.UnsupportedVersionNumber), "C22.bytes.subcode.version")
	vAssert(vImplies(vAnd(okVersion, vAnd(!okID, vAnd(okHT, okAS))), cc.notifSub == packet.BadBGPIdentifier), "C22.bytes.subcode.identifier")
	vAssert(vImplies(vAnd(okVersion, vAnd(okID, vAnd(!okHT, okAS))), cc.notifSub == packet.UnacceptableHoldTime), "C22.bytes.subcode.holdtime")
	vAssert(vImplies(vAnd(okVersion, vAnd(okID, vAnd(okHT, !okAS))), cc.notifSub == packet.BadPeerAS), "C22.bytes.subcode.peeras")
	if toConfirm {
		want := time.Duration(ht) * time.Second
		if want > 90*time.Second {
			want = 90 * time.Second
		}
		vAssert(fsm.holdTime == want, "C22.bytes.holdtime.min")
		vAssert(cc.keepalives == 1, "C22.bytes.keepalive")
		vAssert(!cc.closed, "C22.bytes.accepted.open")
	}
}

func b2u22(b bool) uint64 {
	if b {
		return 1
	}
	return 0
}

// (B) capabilities: AS_TRANS / 4-octet ASN, add-path, multiprotocol, RFC 9234 roles — all local settings symbolic
func VC22_Caps() {
	localAS, peerAS := ndU32(), ndU32()
	localHold := time.Duration(ndU8()) * time.Second
	p, fsm, cc := c22Peer(localAS, peerAS, ndU32(), localHold)
	p.peerRoleEnabled, p.peerRoleStrictMode, p.peerRoleLocal = ndBool(), ndBool(), ndU8()%5
	p.ipv4MultiProtocolAdvertised = ndBool()
	localTXMulti := ndBool()
	p.ipv4.addPathSend = routingtable.ClientOptions{BestOnly: !localTXMulti, MaxPaths: uint(vIte64(localTXMulti, 3, 0))}
	p.ipv6.addPathSend = routingtable.ClientOptions{BestOnly: true}
	p.ipv4.addPathReceive = ndBool()
	s := newOpenSentState(fsm)
	fsm.state = s

	o := &packet.BGPOpen{Version: 4, ASN: ndU16(), HoldTime: uint16(ndU8()), BGPIdentifier: ndU32()}
	vAssume(o.BGPIdentifier != 0)
	var caps packet.Capabilities
	shape := vParam("shape")
	hasAS4 := shape&1 != 0
	as4 := ndU32()
	if hasAS4 {
		caps = append(caps, packet.Capability{Code: packet.ASN4CapabilityCode, Value: packet.ASN4Capability{ASN4: as4}})
	}
	apMode := uint8(vParam("addpath")) // 0: no add-path capability; 1 receive, 2 send, 3 both (IPv4 unicast)
	if apMode != 0 {
		caps = append(caps, packet.Capability{Code: packet.AddPathCapabilityCode, Value: packet.AddPathCapability{{AFI: packet.AFIIPv4, SAFI: packet.SAFIUnicast, SendReceive: apMode}}})
	}
	mp6, mp4 := shape&2 != 0, shape&4 != 0
	if mp6 {
		caps = append(caps, packet.Capability{Code: packet.MultiProtocolCapabilityCode, Value: packet.MultiProtocolCapability{AFI: packet.AFIIPv6, SAFI: packet.SAFIUnicast}})
	}
	if mp4 {
		caps = append(caps, packet.Capability{Code: packet.MultiProtocolCapabilityCode, Value: packet.MultiProtocolCapability{AFI: packet.AFIIPv4, SAFI: packet.SAFIUnicast}})
	}
	nRoles := vParam("roles")
	r1, r2 := ndU8()%5, ndU8()%5
	if nRoles >= 1 {
		caps = append(caps, packet.Capability{Code: packet.PeerRoleCapabilityCode, Value: packet.PeerRoleCapability{PeerRole: r1}})
	}
	if nRoles == 2 {
		caps = append(caps, packet.Capability{Code: packet.PeerRoleCapabilityCode, Value: packet.PeerRoleCapability{PeerRole: r2}})
	}
	if len(caps) > 0 {
		o.OptParams = []packet.OptParam{{Type: packet.CapabilitiesParamType, Value: caps}}
	}
	next, _ := s.openMsgReceived(o)
	vReach("caps")
	_, toConfirm := next.(*openConfirmState)
	_, toIdle := next.(*idleState)

	// reference admission predicate
	resolved := uint32(o.ASN)
	if o.ASN == packet.ASTransASN && hasAS4 {
		resolved = as4
	}
	ibgp := localAS == peerAS
	okAS := resolved == peerAS
	okID := !(ibgp && o.BGPIdentifier == p.routerID)
	okRole := true
	if !ibgp && p.peerRoleEnabled {
		adv := nRoles >= 1
		remote := r1
		if nRoles == 2 {
			remote = r2
		}
		switch {
		case p.peerRoleStrictMode && !adv:
			okRole = false
		case !adv:
		case nRoles == 2 && r1 != r2:
			okRole = false
		default:
			l := p.peerRoleLocal
			okRole = (l == packet.PeerRoleRoleProvider && remote == packet.PeerRoleRoleCustomer) || (l == packet.PeerRoleRoleCustomer && remote == packet.PeerRoleRoleProvider) ||
				(l == packet.PeerRoleRoleRS && remote == packet.PeerRoleRoleRSClient) || (l == packet.PeerRoleRoleRSClient && remote == packet.PeerRoleRoleRS) ||
				(l == packet.PeerRoleRolePeer && remote == packet.PeerRoleRolePeer)
		}
	}
	valid := okAS && okID && okRole
	vAssert(toConfirm == valid, "C22.caps.admitted")
	if !valid {
		vAssert(toIdle, "C22.caps.rejected.idle")
		vAssert(cc.notifs == 1 && cc.notifCode == packet.OpenMessageError, "C22.caps.rejected.notification")
		vAssert(cc.closed, "C22.caps.rejected.closed")
		vAssert(!cc.closedBeforeNotif, "C22.caps.notification.before.close")
		if !okID {
			vAssert(cc.notifSub == packet.BadBGPIdentifier, "C22.caps.subcode.identifier")
		} else if !okAS {
			vAssert(cc.notifSub == packet.BadPeerAS, "C22.caps.subcode.peeras")
		} else {
			vAssert(cc.notifSub == packet.RoleMismatchError, "C22.caps.subcode.role")
		}
		return
	}
	// negotiated values
	want := time.Duration(o.HoldTime) * time.Second
	if want > localHold {
		want = localHold
	}
	vAssert(fsm.holdTime == want, "C22.caps.holdtime.min")
	vAssert(fsm.supports4OctetASN == hasAS4, "C22.caps.as4")
	peerSends := apMode == packet.AddPathSend || apMode == packet.AddPathSendReceive
	peerReceives := apMode == packet.AddPathReceive || apMode == packet.AddPathSendReceive
	vAssert(fsm.ipv4Unicast.addPathRX == (peerSends && p.ipv4.addPathReceive), "C22.caps.addpath.rx")
	txMulti := !fsm.ipv4Unicast.addPathTX.BestOnly && fsm.ipv4Unicast.addPathTX.MaxPaths != 0
	vAssert(txMulti == (peerReceives && localTXMulti), "C22.caps.addpath.tx")
	vAssert(!fsm.ipv6Unicast.addPathRX, "C22.caps.addpath.v6.rx")
	vAssert(fsm.ipv6Unicast.multiProtocol == mp6, "C22.caps.mp.v6")
	vAssert(fsm.ipv4Unicast.multiProtocol == (mp4 && p.ipv4MultiProtocolAdvertised), "C22.caps.mp.v4")
	vAssert(cc.keepalives == 1 && !cc.closed, "C22.caps.accepted")
}

func VC22_Twin() {
	_, fsm, _ := c22Peer(1, 2, 3, time.Second)
	_ = fsm
	vAssert(false, "C22.twin")
}
