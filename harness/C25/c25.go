package server

import (
	"net"
	"time"

	bnet "github.com/bio-routing/bio-rd/net"
	"github.com/bio-routing/bio-rd/protocols/bgp/packet"
	"github.com/bio-routing/bio-rd/protocols/bgp/types"
	"github.com/bio-routing/bio-rd/route"
	"github.com/bio-routing/bio-rd/routingtable"
	"github.com/bio-routing/bio-rd/routingtable/adjRIBIn"
	"github.com/bio-routing/bio-rd/routingtable/adjRIBOut"
	"github.com/bio-routing/bio-rd/routingtable/filter"
	"github.com/bio-routing/bio-rd/routingtable/filter/actions"
	"github.com/bio-routing/bio-rd/routingtable/locRIB"
	"github.com/bio-routing/bio-rd/routingtable/vrf"
)

// C25 — concurrent table operations always complete. Two goroutines run one table operation each on a Loc-RIB with an
// Adj-RIB-In in front and an Adj-RIB-Out (with a client) behind; the scheduler explores every interleaving at lock
// acquisitions (bounded number of context switches). Afterwards both operations must have returned and the tables
// must still be usable.

type c25Sys struct {
	rib  *locRIB.LocRIB
	ari  *adjRIBIn.AdjRIBIn
	aro  *adjRIBOut.AdjRIBOut
	sink *c25Client
}

// a passive last client (stands for the update sender)
type c25Client struct {
	routingtable.RouteTableClient
	adds, removes int
}

func (c *c25Client) AddPath(*bnet.Prefix, *route.Path) error            { c.adds++; return nil }
func (c *c25Client) AddPathInitialDump(*bnet.Prefix, *route.Path) error { c.adds++; return nil }
func (c *c25Client) RemovePath(*bnet.Prefix, *route.Path) bool          { c.removes++; return true }
func (c *c25Client) EndOfRIB()                                          {}
func (c *c25Client) Dispose()                                           {}
func (c *c25Client) RefreshRoute(*bnet.Prefix, []*route.Path)           {}
func (c *c25Client) ReplaceFilterChain(filter.Chain)                    {}
func (c *c25Client) ReplacePath(*bnet.Prefix, *route.Path, *route.Path) {}
func (c *c25Client) ClientCount() uint64                                { return 0 }
func (c *c25Client) RouteCount() int64                                  { return 0 }
func (c *c25Client) Dump() []*route.Route                               { return nil }
func (c *c25Client) Register(routingtable.RouteTableClient)             {}
func (c *c25Client) Unregister(routingtable.RouteTableClient)           {}
func (c *c25Client) UpdateNewClient(routingtable.RouteTableClient) error { return nil }
func (c *c25Client) RegisterWithOptions(routingtable.RouteTableClient, routingtable.ClientOptions) {
}

func c25Build() *c25Sys {
	v := vrf.NewUntrackedVRF("master", 0)
	inSA := routingtable.SessionAttrs{RouterID: 1, PeerIP: bnet.IPv4(0x0a000901).Ptr(), LocalIP: bnet.IPv4(0x0a000902).Ptr(), Type: route.BGPPathType, LocalASN: 65000, PeerASN: 65101}
	outSA := routingtable.SessionAttrs{RouterID: 1, PeerIP: bnet.IPv4FromOctets(169, 254, 100, 100).Ptr(), LocalIP: bnet.IPv4FromOctets(169, 254, 100, 1).Ptr(), Type: route.BGPPathType, IBGP: true, LocalASN: 65000, PeerASN: 65000}
	rib := locRIB.New("inet.0")
	ari := adjRIBIn.New(filter.NewAcceptAllFilterChain(), v, inSA)
	ari.Register(rib)
	aro := adjRIBOut.New(rib, outSA, filter.NewAcceptAllFilterChain())
	sink := &c25Client{}
	aro.Register(sink)
	rib.RegisterWithOptions(aro, routingtable.ClientOptions{BestOnly: true})
	return &c25Sys{rib, ari, aro, sink}
}

func c25Path(med uint32) *route.Path {
	nh := bnet.IPv4(0x0a000901)
	src := bnet.IPv4(0x0a000901)
	return &route.Path{Type: route.BGPPathType, BGPPath: &route.BGPPath{
		BGPPathA: &route.BGPPathA{NextHop: &nh, Source: &src, LocalPref: 100, MED: med, EBGP: true, BGPIdentifier: 9},
		ASPath:   types.NewASPath([]uint32{65101}), ASPathLen: 1}}
}

func c25Pfx(i int) *bnet.Prefix { return bnet.NewPfx(bnet.IPv4(uint32(0x0a000000+i<<16)), 16).Ptr() }

func c25Chain() filter.Chain {
	return filter.Chain{filter.NewFilter("med50", []*filter.Term{filter.NewTerm("t", nil, []actions.Action{actions.NewSetMEDAction(50), actions.NewAcceptAction()})})}
}

const (
	c25AddPath = iota
	c25RemovePath
	c25ExportPolicy
	c25ImportPolicy
	c25RegisterClient
	c25UnregisterClient
	c25Refresh
	c25DisposeRIB
	c25UnregisterSession
	c25RegisterAfterDispose
	c25NumOps
)

func (s *c25Sys) op(o int, who int) {
	switch o {
	case c25AddPath:
		s.ari.AddPath(c25Pfx(who), c25Path(uint32(10+who)))
	case c25RemovePath:
		s.ari.RemovePath(c25Pfx(0), c25Path(1))
	case c25ExportPolicy:
		s.aro.ReplaceFilterChain(c25Chain())
	case c25ImportPolicy:
		s.ari.ReplaceFilterChain(c25Chain())
	case c25RegisterClient:
		s.rib.RegisterWithOptions(&c25Client{}, routingtable.ClientOptions{MaxPaths: 2})
	case c25UnregisterClient:
		s.rib.Unregister(s.aro)
	case c25Refresh:
		s.rib.RefreshClient(s.aro)
	case c25DisposeRIB:
		s.rib.Dispose()
	case c25UnregisterSession:
		s.ari.Unregister(s.rib)
	case c25RegisterAfterDispose:
		s.rib.Dispose()
		s.rib.Register(&c25Client{})
	}
}

func VC25_Pair() {
	s := c25Build()
	s.ari.AddPath(c25Pfx(0), c25Path(1)) // something is in the tables
	o1, o2 := vParam("op1"), vParam("op2")
	done1, done2 := false, false
	go func() { s.op(o1, 1); done1 = true }()
	go func() { s.op(o2, 2); done2 = true }()
	vSettle()
	vReach("ran")
	// known finding C25-1: lock order inversion between AdjRIBOut.ReplaceFilterChain (Adj-RIB-Out lock, then the
	// Loc-RIB's read lock in RefreshClient) and every Loc-RIB change that propagates to the Adj-RIB-Out (Loc-RIB write
	// lock, then the Adj-RIB-Out lock)
	propagates := func(o int) bool {
		return o == c25AddPath || o == c25RemovePath || o == c25ImportPolicy || o == c25UnregisterSession
	}
	vKnown("C25-1", (o1 == c25ExportPolicy && propagates(o2)) || (o2 == c25ExportPolicy && propagates(o1)))
	vAssert(done1, "C25.op1.completes")
	vAssert(done2, "C25.op2.completes")
	// the tables are still usable: every public operation returns
	s.ari.AddPath(c25Pfx(5), c25Path(5))
	s.rib.AddPath(c25Pfx(6), c25Path(6))
	_ = s.rib.ClientCount()
	_ = s.rib.Dump()
	_ = s.aro.Dump()
	s.rib.Unregister(s.aro)
	s.aro.ReplaceFilterChain(filter.NewAcceptAllFilterChain())
	vReach("usable")
}

// export policy replacement on an add-path session whose Loc-RIB holds a route that must not be advertised
// (NO_ADVERTISE): sequential, must return
func VC25_RefreshAddPath() {
	v := vrf.NewUntrackedVRF("master", 0)
	_ = v
	outSA := routingtable.SessionAttrs{RouterID: 1, PeerIP: bnet.IPv4FromOctets(169, 254, 100, 100).Ptr(), LocalIP: bnet.IPv4FromOctets(169, 254, 100, 1).Ptr(), Type: route.BGPPathType, IBGP: true, LocalASN: 65000, PeerASN: 65000, AddPathTX: vParam("addpath") == 1}
	rib := locRIB.New("inet.0")
	aro := adjRIBOut.New(rib, outSA, filter.NewAcceptAllFilterChain())
	aro.Register(&c25Client{})
	rib.RegisterWithOptions(aro, routingtable.ClientOptions{MaxPaths: 4})
	p := c25Path(7)
	if ndBool() {
		coms := types.Communities{types.WellKnownCommunityNoAdvertise}
		p.BGPPath.Communities = &coms
	}
	rib.AddPath(c25Pfx(0), p)
	rib.AddPath(c25Pfx(1), c25Path(8))
	aro.ReplaceFilterChain(c25Chain())
	vReach("replaced")
	_ = aro.Dump()
	rib.AddPath(c25Pfx(2), c25Path(9))
	vReach("usable")
}

// the client manager alone: registration after disposal must not leave its lock held
func VC25_ClientManager() {
	cm := routingtable.NewClientManager(&c25Client{})
	cm.RegisterWithOptions(&c25Client{}, routingtable.ClientOptions{BestOnly: true})
	if ndBool() {
		cm.Dispose()
	}
	cm.RegisterWithOptions(&c25Client{}, routingtable.ClientOptions{BestOnly: true})
	vReach("registered")
	_ = cm.ClientCount()
	_ = cm.Clients()
	cm.Unregister(&c25Client{})
	vReach("usable")
}

type c25Conn struct {
	net.Conn
	gate   chan struct{} // every Write waits for a token: the peer reads slowly
	writes int
}

func (c *c25Conn) Write(b []byte) (int, error) {
	<-c.gate
	c.writes++
	return len(b), nil
}
func (c *c25Conn) Close() error { return nil }

// session disposal while the update sender is flushing: afterwards the sender's queue lock must be free (a route
// change that still reaches the sender must return)
func VC25_Sender() {
	peerIP := bnet.IPv4FromOctets(169, 254, 100, 100).Ptr()
	p := &peer{addr: peerIP, localAddr: bnet.IPv4FromOctets(169, 254, 100, 1).Ptr(), localASN: 65000, peerASN: 65000, routerID: 1}
	fsm := newFSM(p)
	rib := locRIB.New("inet.0")
	fsm.ipv4Unicast = newFSMAddressFamily(packet.AFIIPv4, packet.SAFIUnicast, &peerAddressFamily{rib: rib, importFilterChain: filter.NewAcceptAllFilterChain(), exportFilterChain: filter.NewAcceptAllFilterChain(),
		addPathSend: routingtable.ClientOptions{BestOnly: true}}, fsm)
	fsm.ipv4Unicast.addPathTX = routingtable.ClientOptions{BestOnly: true}
	cc := &c25Conn{gate: make(chan struct{}, 8)}
	fsm.con = cc
	us := newUpdateSender(fsm.ipv4Unicast)
	us.Start(5 * time.Millisecond)
	vSettle()
	n := vParam("n")
	for i := 0; i < n; i++ {
		us.AddPath(c25Pfx(i), c25Path(uint32(100+i))) // n different attribute sets queued
	}
	vAdvance(int64(5 * time.Millisecond)) // the sender starts flushing and waits in its first Write
	vSettle()
	destroyed := false
	go func() { us.Destroy(); destroyed = true }()
	go func() {
		for i := 0; i < n; i++ {
			cc.gate <- struct{}{} // the peer reads
		}
	}()
	vSettle()
	vReach("destroyed")
	vAssert(destroyed, "C25.sender.destroy.returns")
	added := false
	go func() { us.AddPath(c25Pfx(9), c25Path(9)); added = true }()
	vSettle()
	vAssert(added, "C25.sender.addpath.after.destroy.returns")
}

func VC25_Twin() {
	s := c25Build()
	_ = s
	vAssert(false, "C25.twin")
}

var _ = packet.AFIIPv4
