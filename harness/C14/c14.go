package filter

import (
	bnet "github.com/bio-routing/bio-rd/net"
	"github.com/bio-routing/bio-rd/protocols/bgp/types"
	"github.com/bio-routing/bio-rd/route"
	"github.com/bio-routing/bio-rd/routingtable/filter/actions"
)

// C14 — policy evaluation vs. a reference interpreter, compositionally:
//  (1) every prefix matcher / route filter / prefix list against bit-level definitions (IPv4 and IPv6, all lengths)
//  (2) a term condition = conjunction of its parts; a term applies when ANY condition matches
//  (3) terms, filters and chains are evaluated in order, the first accept/reject ends evaluation, default accept
//  (4) chains that compare Equal produce the same outcome

type c14P struct {
	hi, lo uint64
	l      uint8
}

func c14Mask64(n uint8) uint64 {
	if n == 0 {
		return 0
	}
	return ^uint64(0) << (64 - n)
}

func c14TopEq(v6 bool, a, b c14P, n uint8) bool {
	if !v6 {
		if n == 0 {
			return true
		}
		m := uint32(^uint32(0) << (32 - n))
		return uint32(a.lo)&m == uint32(b.lo)&m
	}
	if n <= 64 {
		m := c14Mask64(n)
		return a.hi&m == b.hi&m
	}
	if a.hi != b.hi {
		return false
	}
	m := c14Mask64(n - 64)
	return a.lo&m == b.lo&m
}

func c14Mk(v6 bool) (c14P, *bnet.Prefix) {
	if v6 {
		p := c14P{hi: ndU64(), lo: ndU64(), l: ndU8()}
		vAssume(p.l <= 128)
		return p, bnet.NewPfx(bnet.IPv6(p.hi, p.lo), p.l).Ptr()
	}
	p := c14P{lo: uint64(ndU32()), l: ndU8()}
	vAssume(p.l <= 32)
	return p, bnet.NewPfx(bnet.IPv4(uint32(p.lo)), p.l).Ptr()
}

func c14Same(a, b c14P) bool {
	if a.l != b.l || a.hi != b.hi {
		return false
	}
	return a.lo == b.lo
}

// reference matcher semantics: kind 0 exact, 1 orlonger, 2 longer, 3 range[min,max]
func c14RefMatch(v6 bool, kind int, min, max uint8, pat, q c14P) bool {
	inside := q.l >= pat.l && c14TopEq(v6, pat, q, pat.l) // pattern covers q (contains or equals, on the address bits)
	switch kind {
	case 0:
		return c14Same(pat, q)
	case 1:
		if q.l == pat.l {
			return c14Same(pat, q)
		}
		return inside
	case 2:
		return inside && q.l > pat.l
	}
	if q.l < min || q.l > max {
		return false
	}
	if q.l == pat.l {
		return c14Same(pat, q)
	}
	return inside
}

func c14Matcher(kind int, min, max uint8) PrefixMatcher {
	switch kind {
	case 0:
		return NewExactMatcher()
	case 1:
		return NewOrLongerMatcher()
	case 2:
		return NewLongerMatcher()
	}
	return NewInRangeMatcher(min, max)
}

// (1) route filters and prefix lists
func VC14_RouteFilter() {
	v6 := vParam("v6") == 1
	kind := vParam("kind")
	min, max := ndU8(), ndU8()
	pat, patP := c14Mk(v6)
	q, qP := c14Mk(v6)
	rf := NewRouteFilter(patP, c14Matcher(kind, min, max))
	got := rf.Matches(qP)
	vReach("routefilter")
	vObserve(b2u14(got))
	vAssert(got == c14RefMatch(v6, kind, min, max, pat, q), "C14.routefilter")
	pl := NewPrefixList(patP)
	vAssert(pl.Matches(qP) == c14Same(pat, q), "C14.prefixlist")
}

func b2u14(b bool) uint64 {
	if b {
		return 1
	}
	return 0
}

func c14Path(bgp bool) *route.Path {
	if !bgp {
		nh := bnet.IPv4(7)
		return &route.Path{Type: route.StaticPathType, StaticPath: &route.StaticPath{NextHop: &nh}}
	}
	nh := bnet.IPv4(1)
	src := bnet.IPv4(2)
	p := &route.Path{Type: route.BGPPathType, BGPPath: &route.BGPPath{BGPPathA: &route.BGPPathA{NextHop: &nh, Source: &src, LocalPref: ndU32(), MED: ndU32()},
		ASPath: &types.ASPath{}}}
	switch vChoice(3) { // communities: nil / empty / two symbolic
	case 1:
		c := make(types.Communities, 0)
		p.BGPPath.Communities = &c
	case 2:
		c := types.Communities{ndU32(), ndU32()}
		p.BGPPath.Communities = &c
	}
	return p
}

// (2) a condition is the conjunction of its parts
func VC14_Condition() {
	v6 := vParam("v6") == 1
	pat1, pat1P := c14Mk(v6)
	pat2, pat2P := c14Mk(v6)
	q, qP := c14Mk(v6)
	k1 := vChoice(4)
	min, max := ndU8(), ndU8()
	bgp := ndBool()
	pa := c14Path(bgp)
	tc := &TermCondition{}
	want := true
	if ndBool() { // route filters: any of them
		tc.routeFilters = []*RouteFilter{NewRouteFilter(pat1P, c14Matcher(k1, min, max)), NewRouteFilter(pat2P, NewExactMatcher())}
		want = want && (c14RefMatch(v6, k1, min, max, pat1, q) || c14Same(pat2, q))
	}
	if ndBool() { // prefix lists: any of them
		tc.prefixLists = []*PrefixList{NewPrefixList(pat2P)}
		want = want && c14Same(pat2, q)
	}
	if ndBool() { // protocols: any of them
		pr := uint8(route.BGPPathType)
		if ndBool() {
			pr = route.StaticPathType
		}
		tc.protocols = []uint8{pr}
		want = want && pa.Type == pr
	}
	if ndBool() { // community filters: any community of the path equals any filter value
		cv := ndU32()
		tc.communityFilters = []*CommunityFilter{{community: cv}}
		has := false
		if bgp && pa.BGPPath.Communities != nil {
			for _, c := range *pa.BGPPath.Communities {
				if c == cv {
					has = true
				}
			}
		}
		want = want && has
	}
	got := tc.Matches(qP, pa)
	vReach("condition")
	vAssert(got == want, "C14.condition")
}

// (3) ordering and termination. Terms use protocol conditions (cheap to decide) so that which terms apply is symbolic;
// actions: 0 accept, 1 reject, 2 set LOCAL_PREF and continue, 3 set MED then accept, 4 nothing (no actions)
type c14T struct {
	applies bool // does some condition of the term match
	act     int
	val     uint32
}

func c14Term(pa *route.Path, nconds int) (c14T, *Term) {
	t := c14T{act: vChoice(4), val: ndU32()}
	var from []*TermCondition
	if nconds == 0 {
		t.applies = true
	}
	for i := 0; i < nconds; i++ {
		pr := uint8(route.BGPPathType)
		if ndBool() {
			pr = route.StaticPathType
		}
		from = append(from, NewTermConditionWithProtocols(pr))
		if pa.Type == pr {
			t.applies = true
		}
	}
	var then []actions.Action
	switch t.act {
	case 0:
		then = []actions.Action{actions.NewAcceptAction()}
	case 1:
		then = []actions.Action{actions.NewRejectAction()}
	case 2:
		then = []actions.Action{actions.NewSetLocalPrefAction(t.val)}
	case 3:
		then = []actions.Action{actions.NewSetMEDAction(t.val), actions.NewAcceptAction()}
	}
	return t, NewTerm("t", from, then)
}

type c14Out struct {
	lp, med    uint32
	reject     bool
	terminated bool
}

func c14RefTerm(t c14T, bgp bool, o c14Out) c14Out {
	if o.terminated || !t.applies {
		return o
	}
	switch t.act {
	case 0:
		o.terminated = true
	case 1:
		o.terminated, o.reject = true, true
	case 2:
		if bgp {
			o.lp = t.val
		}
	case 3:
		if bgp {
			o.med = t.val
		}
		o.terminated = true
	}
	return o
}

func VC14_Chain() {
	bgp := vParam("bgp") == 1
	var pa *route.Path
	if bgp {
		nh := bnet.IPv4(1)
		src := bnet.IPv4(2)
		pa = &route.Path{Type: route.BGPPathType, BGPPath: &route.BGPPath{BGPPathA: &route.BGPPathA{NextHop: &nh, Source: &src, LocalPref: ndU32(), MED: ndU32()}, ASPath: &types.ASPath{}}}
	} else {
		pa = c14Path(false)
	}
	pfx := bnet.NewPfx(bnet.IPv4(0x0a000000), 8).Ptr()
	var o c14Out
	if bgp {
		o.lp, o.med = pa.BGPPath.BGPPathA.LocalPref, pa.BGPPath.BGPPathA.MED
	}
	origLP, origMED := o.lp, o.med
	nf := vParam("filters")
	nt := vParam("terms")
	var chain Chain
	for f := 0; f < nf; f++ {
		var terms []*Term
		for i := 0; i < nt; i++ {
			rt, t := c14Term(pa, vParam("conds"))
			terms = append(terms, t)
			o = c14RefTerm(rt, bgp, o)
		}
		chain = append(chain, NewFilter("f", terms))
	}
	out, reject := chain.Process(pfx, pa)
	vReach("chain")
	vAssert(reject == o.reject, "C14.chain.verdict")
	vAssert(out != nil, "C14.chain.path")
	if bgp && out != nil {
		vAssert(out.BGPPath.BGPPathA.LocalPref == o.lp, "C14.chain.localpref")
		vAssert(out.BGPPath.BGPPathA.MED == o.med, "C14.chain.med")
		// the input path is left alone
		vAssert(pa.BGPPath.BGPPathA.LocalPref == origLP, "C14.chain.input.localpref")
		vAssert(pa.BGPPath.BGPPathA.MED == origMED, "C14.chain.input.med")
	}
}

// (4) Equal chains behave equally: two single-term chains built from independently chosen ingredients over a shared pattern
func c14EqChain(v6 bool, patP, pat2P *bnet.Prefix, variant int) (Chain, int, uint8, uint8, int, uint32, bool, bool) {
	kind, act := 0, 0
	var min, max uint8
	var val uint32
	if variant == 0 { // matcher kind, action and parameters chosen independently per chain
		kind = vChoice(4)
		min, max = ndU8(), ndU8()
		act = vChoice(4)
		val = ndU32()
	}
	tc := NewTermConditionWithRouteFilters(NewRouteFilter(patP, c14Matcher(kind, min, max)))
	withList, withProto := false, false
	if variant >= 1 && ndBool() {
		tc.prefixLists = []*PrefixList{NewPrefixList(pat2P)}
		withList = true
	}
	if variant >= 1 && ndBool() {
		tc.protocols = []uint8{route.StaticPathType}
		withProto = true
	}
	var then []actions.Action
	switch act {
	case 0:
		then = []actions.Action{actions.NewAcceptAction()}
	case 1:
		then = []actions.Action{actions.NewRejectAction()}
	case 2:
		then = []actions.Action{actions.NewSetLocalPrefAction(val), actions.NewAcceptAction()}
	case 3:
		then = []actions.Action{actions.NewSetMEDAction(val), actions.NewAcceptAction()}
	}
	c := Chain{NewFilter("f", []*Term{NewTerm("t", []*TermCondition{tc}, then), NewTerm("rej", nil, []actions.Action{actions.NewRejectAction()})})}
	return c, kind, min, max, act, val, withList, withProto
}

func VC14_Equal() {
	v6 := vParam("v6") == 1
	variant := vParam("variant")
	_, patP := c14Mk(v6)
	_, pat2P := c14Mk(v6)
	c, _, _, _, _, _, _, _ := c14EqChain(v6, patP, pat2P, variant)
	patD, pat2D := patP, pat2P
	if vParam("ownpat") == 1 {
		// the second chain is built over its own pattern / prefix-list objects holding symbolic prefixes (or shares the
		// first chain's): whatever notion of equality Equal uses for them must imply equal behaviour
		if ndBool() {
			_, patD = c14Mk(v6)
		}
		if ndBool() {
			_, pat2D = c14Mk(v6)
		}
	}
	d, _, _, _, _, _, _, _ := c14EqChain(v6, patD, pat2D, variant)
	_, qP := c14Mk(v6)
	pa := c14Path(true)
	vAssume(c.Equal(d))
	o1, r1 := c.Process(qP, pa)
	o2, r2 := d.Process(qP, pa)
	vReach("equal")
	vAssert(r1 == r2, "C14.equal.verdict")
	vAssert(o1.BGPPath.BGPPathA.LocalPref == o2.BGPPath.BGPPathA.LocalPref, "C14.equal.localpref")
	vAssert(o1.BGPPath.BGPPathA.MED == o2.BGPPath.BGPPathA.MED, "C14.equal.med")
}

func VC14_Twin() {
	_, patP := c14Mk(false)
	_, qP := c14Mk(false)
	_ = NewRouteFilter(patP, NewExactMatcher()).Matches(qP)
	vAssert(false, "C14.twin")
}
