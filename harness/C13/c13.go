package adjRIBOut

import (
	bnet "github.com/bio-routing/bio-rd/net"
	"github.com/bio-routing/bio-rd/protocols/bgp/types"
	"github.com/bio-routing/bio-rd/route"
	"github.com/bio-routing/bio-rd/routingtable"
	"github.com/bio-routing/bio-rd/routingtable/filter"
	"github.com/bio-routing/bio-rd/routingtable/filter/actions"
	"github.com/bio-routing/bio-rd/routingtable/locRIB"
)

// C13 — exporting (advertising, refreshing, filtering, rewriting) for one session never alters the route as stored
// in the Loc-RIB or in another session's Adj-RIB-Out.

type c13Snap struct {
	med, lp, orig, pathID uint32
	nh                    bnet.IP
	asLen                 uint16
	firstASN              uint32
	nSeg, nASN0, clLen    int
}

func c13Take(p *route.Path) c13Snap {
	b := p.BGPPath
	s := c13Snap{med: b.BGPPathA.MED, lp: b.BGPPathA.LocalPref, orig: b.BGPPathA.OriginatorID, pathID: b.PathIdentifier, nh: *b.BGPPathA.NextHop, asLen: b.ASPathLen}
	if b.ASPath != nil {
		s.nSeg = len(*b.ASPath)
		if s.nSeg > 0 {
			s.nASN0 = len((*b.ASPath)[0].ASNs)
			if s.nASN0 > 0 {
				s.firstASN = (*b.ASPath)[0].ASNs[0]
			}
		}
	}
	if b.ClusterList != nil {
		s.clLen = len(*b.ClusterList)
	}
	return s
}

func c13Same(a, b c13Snap, label string) {
	vAssert(a.med == b.med, label+".med")
	vAssert(a.lp == b.lp, label+".localpref")
	vAssert(a.orig == b.orig, label+".originator")
	vAssert(a.pathID == b.pathID, label+".pathid")
	vAssert(a.nh == b.nh, label+".nexthop")
	vAssert(a.asLen == b.asLen, label+".aspathlen")
	vAssert(a.firstASN == b.firstASN, label+".aspath.first")
	vAssert(a.nSeg == b.nSeg && a.nASN0 == b.nASN0, label+".aspath.shape")
	vAssert(a.clLen == b.clLen, label+".clusterlist")
}

func c13Session(kind int, peer byte) routingtable.SessionAttrs {
	peerIP := bnet.IPv4FromOctets(169, 254, 100, peer).Ptr()
	sa := routingtable.SessionAttrs{RouterID: 1, PeerIP: peerIP, LocalIP: bnet.IPv4FromOctets(169, 254, 100, 1).Ptr(), Type: route.BGPPathType, LocalASN: 65000, ClusterID: 77}
	switch kind {
	case 0:
		sa.IBGP, sa.PeerASN = true, 65000
	case 1:
		sa.IBGP, sa.PeerASN, sa.RouteReflectorClient = true, 65000, true
	case 2:
		sa.PeerASN = 65001
	case 3:
		sa.PeerASN, sa.RouteServerClient = 65001, true
	}
	return sa
}

func c13Chain(which int) filter.Chain {
	switch which {
	case 1:
		return filter.Chain{filter.NewFilter("med", []*filter.Term{filter.NewTerm("t", nil, []actions.Action{actions.NewSetMEDAction(50), actions.NewAcceptAction()})})}
	case 2:
		return filter.Chain{filter.NewFilter("prepend", []*filter.Term{filter.NewTerm("t", nil, []actions.Action{actions.NewASPathPrependAction(65000, 2), actions.NewAcceptAction()})})}
	case 3:
		return filter.NewDrainFilterChain()
	case 4:
		return filter.Chain{}
	}
	return filter.NewAcceptAllFilterChain()
}

func VC13_Export() {
	kindA := vParam("kind")
	rib := locRIB.New("inet.0")
	pfx := bnet.NewPfx(bnet.IPv4FromOctets(10, 0, 0, 0), 8).Ptr()
	nh := bnet.IPv4(0x0a000901)
	src := bnet.IPv4(0x0a000901)
	p := &route.Path{Type: route.BGPPathType, BGPPath: &route.BGPPath{
		BGPPathA: &route.BGPPathA{NextHop: &nh, Source: &src, LocalPref: ndU32(), MED: ndU32(), EBGP: true, BGPIdentifier: 9, OriginatorID: uint32(ndU8() & 1)},
		ASPath:   types.NewASPath([]uint32{65101, 65102}), ASPathLen: 2}}
	rib.AddPath(pfx, p)
	// another session that already holds the route unmodified (iBGP, not a client)
	other := New(rib, c13Session(0, 200), filter.NewAcceptAllFilterChain())
	rib.RegisterWithOptions(other, routingtable.ClientOptions{BestOnly: true})
	inRIB := rib.Get(pfx).Paths()[0]
	ribBefore := c13Take(inRIB)
	var otherBefore c13Snap
	otherHas := other.Get(pfx) != nil
	if otherHas {
		otherBefore = c13Take(other.Get(pfx).Paths()[0])
	}
	// --- session A exports: registration (initial dump), then policy replacement (refresh), optionally add-path
	opts := routingtable.ClientOptions{BestOnly: true}
	saA := c13Session(kindA, 100)
	if vParam("addpath") == 1 {
		opts = routingtable.ClientOptions{MaxPaths: 4}
		saA.AddPathTX = true
	}
	a := New(rib, saA, c13Chain(vChoice(5)))
	rib.RegisterWithOptions(a, opts)
	c13Other := func(tag string) {
		if otherHas {
			og := other.Get(pfx)
			vAssert(og != nil && len(og.Paths()) == 1, "C13.other.kept."+tag)
			if og != nil && len(og.Paths()) == 1 {
				c13Same(otherBefore, c13Take(og.Paths()[0]), "C13.other."+tag)
			}
		}
	}
	c13Other("after.register")
	c13Same(ribBefore, c13Take(p), "C13.source.after.register")
	c13Same(ribBefore, c13Take(rib.Get(pfx).Paths()[0]), "C13.locrib.after.register")
	a.ReplaceFilterChain(c13Chain(vChoice(5)))
	vReach("export")
	rewrites := kindA == 1 || kindA == 2
	vKnown("C13-1", rewrites)
	// the checks that hold on every session kind first; the Loc-RIB check (known finding on rewriting sessions) last
	c13Other("after.refresh")
	vAssert(rib.Get(pfx).Paths()[0] == inRIB, "C13.locrib.sameobject")
	c13Same(ribBefore, c13Take(rib.Get(pfx).Paths()[0]), "C13.locrib.after.refresh")
}

func VC13_Twin() {
	_ = c13Chain(1)
	vAssert(false, "C13.twin")
}
