package server

import (
	bnet "github.com/bio-routing/bio-rd/net"
	"github.com/bio-routing/bio-rd/net/ethernet"
	"github.com/bio-routing/bio-rd/protocols/device"
	"github.com/bio-routing/bio-rd/protocols/isis/packet"
	"github.com/bio-routing/bio-rd/protocols/isis/types"
)

// C32 — the LSDB follows the ISO 10589 update process: highest sequence number kept, SRM/SSN flag rules,
// ageing, own LSP out-numbering received copies.

type c32Dev struct {
	idx   uint64
	addrs []*bnet.Prefix
}

func (m *c32Dev) GetIndex() uint64         { return m.idx }
func (m *c32Dev) GetOperState() uint8      { return device.IfOperUp }
func (m *c32Dev) GetAddrs() []*bnet.Prefix { return m.addrs }

type c32Upd struct{}

func (m *c32Upd) Subscribe(c device.Client, d string)   {}
func (m *c32Upd) Unsubscribe(c device.Client, d string) {}
func (m *c32Upd) Start() error                          { return nil }

var c32Own = types.SystemID{1, 2, 3, 4, 5, 6}

func c32Hello(nb byte, ip uint32, idx uint32) *packet.P2PHello {
	adj := &packet.P2PAdjacencyStateTLV{TLVType: packet.P2PAdjacencyStateTLVType, TLVLength: packet.P2PAdjacencyStateTLVLenWithNeighbor, AdjacencyState: packet.P2PAdjStateInit,
		ExtendedLocalCircuitID: 99, NeighborSystemID: c32Own, NeighborExtendedLocalCircuitID: idx}
	return &packet.P2PHello{CircuitType: 2, SystemID: types.SystemID{9, 9, 9, 9, 9, nb}, HoldingTimer: 30, LocalCircuitID: 1, TLVs: []packet.TLV{adj,
		&packet.ProtocolsSupportedTLV{TLVType: packet.ProtocolsSupportedTLVType, TLVLength: 2, NetworkLayerProtocolIDs: []uint8{packet.NLPIDIPv4, packet.NLPIDIPv6}},
		packet.NewIPInterfaceAddressesTLV([]*bnet.Prefix{bnet.NewPfx(bnet.IPv4(ip), 24).Ptr()}),
		packet.NewAreaAddressesTLV([]types.AreaID{{0x49, 0, 1}})}}
}

// a server with two started p2p interfaces, each with one Up neighbour
func c32Setup() (*Server, *netIfa, *netIfa) {
	srv, _ := New([]*types.NET{{AreaID: types.AreaID{0x49, 0, 1}, SystemID: c32Own}}, &c32Upd{}, 1800)
	srv.SetEthernetInterfaceFactory(ethernet.NewMockEthernetInterfaceFactory())
	srv.SetHostnameFunc(func() (string, error) { return "h", nil })
	var ifs []*netIfa
	for i, name := range []string{"eth0", "eth1"} {
		srv.AddInterface(&InterfaceConfig{Name: name, PointToPoint: true, Level2: &InterfaceLevelConfig{HelloInterval: 1, HoldingTimer: 3, Metric: 10}})
		ifa := srv.netIfaManager.getInterface(name)
		ifa.DeviceUpdate(&c32Dev{idx: uint64(7 + i), addrs: []*bnet.Prefix{bnet.NewPfx(bnet.IPv4(uint32(0x0a000001+i<<8)), 24).Ptr()}})
		vSettle()
		src := ethernet.MACAddr{0, 1, 2, 3, 4, byte(5 + i)}
		for k := 0; k < 2; k++ {
			ifa.processP2PHello(src, c32Hello(byte(1+i), uint32(0x0a000002+i<<8), uint32(7+i)))
			vSettle()
		}
		ifs = append(ifs, ifa)
	}
	return srv, ifs[0], ifs[1]
}

func c32LSP(sysLast uint8, seq uint32, life uint16) *packet.LSPDU {
	return &packet.LSPDU{RemainingLifetime: life, LSPID: packet.LSPID{SystemID: types.SystemID{7, 7, 7, 7, 7, sysLast}}, SequenceNumber: seq}
}

func c32Has(m map[*netIfa]struct{}, i *netIfa) bool {
	_, ok := m[i]
	return ok
}

// highest sequence number wins, for any three received LSPs over two ids
func VC32_Highest() {
	srv, a, b := c32Setup()
	l := srv.lsdbL2
	var ids [3]uint8
	var seqs [3]uint32
	for i := 0; i < 3; i++ {
		ids[i] = ndU8() & 1
		seqs[i] = ndU32()
		vAssume(seqs[i] != 0)
		from := a
		if ndBool() {
			from = b
		}
		l.processLSP(from, c32LSP(ids[i], seqs[i], 1200))
	}
	vReach("highest")
	for q := uint8(0); q < 2; q++ {
		var want uint32
		present := false
		for i := 0; i < 3; i++ {
			if ids[i] == q {
				if !present || seqs[i] > want {
					want = seqs[i]
				}
				present = true
			}
		}
		e := l._getLSPDU(packet.LSPID{SystemID: types.SystemID{7, 7, 7, 7, 7, q}})
		vAssert((e != nil) == present, "C32.highest.present")
		if e != nil && present {
			vAssert(e.lspdu.SequenceNumber == want, "C32.highest.seq")
		}
	}
}

// SRM/SSN rules for a received LSP relative to the stored copy (ISO 10589 7.3.15.1 / 7.3.16)
func VC32_LSPFlags() {
	srv, a, b := c32Setup()
	l := srv.lsdbL2
	s1, s2 := ndU32(), ndU32()
	vAssume(s1 != 0)
	vAssume(s2 != 0)
	l.processLSP(b, c32LSP(1, s1, 1200)) // first copy arrives on eth1
	e := l._getLSPDU(packet.LSPID{SystemID: types.SystemID{7, 7, 7, 7, 7, 1}})
	vAssert(e != nil, "C32.flags.stored")
	vAssert(c32Has(e.srmFlags, a) && !c32Has(e.srmFlags, b), "C32.flags.new.srm")
	vAssert(c32Has(e.ssnFlags, b) && !c32Has(e.ssnFlags, a), "C32.flags.new.ssn")
	l.processLSP(a, c32LSP(1, s2, 1200)) // second copy arrives on eth0
	e = l._getLSPDU(packet.LSPID{SystemID: types.SystemID{7, 7, 7, 7, 7, 1}})
	vReach("lspflags")
	switch {
	case s2 > s1: // newer: flood to everybody else, acknowledge to the sender only
		vAssert(e.lspdu.SequenceNumber == s2, "C32.flags.newer.stored")
		vAssert(c32Has(e.srmFlags, b) && !c32Has(e.srmFlags, a), "C32.flags.newer.srm")
		vAssert(c32Has(e.ssnFlags, a), "C32.flags.newer.ssn.sender")
		vAssert(!c32Has(e.ssnFlags, b), "C32.flags.newer.ssn.others.cleared")
	case s2 == s1: // same: stop sending to the sender, acknowledge
		vAssert(!c32Has(e.srmFlags, a), "C32.flags.same.srm")
		vAssert(c32Has(e.ssnFlags, a), "C32.flags.same.ssn")
	default: // older: send ours to the sender, no acknowledgement
		vAssert(e.lspdu.SequenceNumber == s1, "C32.flags.older.kept")
		vAssert(c32Has(e.srmFlags, a), "C32.flags.older.srm")
		vAssert(!c32Has(e.ssnFlags, a), "C32.flags.older.ssn")
	}
}

// CSNP / PSNP entries against the stored copy
func VC32_SNPFlags() {
	srv, a, _ := c32Setup()
	l := srv.lsdbL2
	s1, s2 := ndU32(), ndU32()
	vAssume(s1 != 0)
	known := ndBool()
	if known {
		l.processLSP(a, c32LSP(1, s1, 1200))
		e := l._getLSPDU(packet.LSPID{SystemID: types.SystemID{7, 7, 7, 7, 7, 1}})
		e.setSRM(a) // pretend it is still to be sent on eth0
	}
	id := packet.LSPID{SystemID: types.SystemID{7, 7, 7, 7, 7, 1}}
	entry := &packet.LSPEntry{RemainingLifetime: 1000, LSPID: id, SequenceNumber: s2}
	csnp := &packet.CSNP{StartLSPID: packet.LSPID{}, EndLSPID: packet.LSPID{SystemID: types.SystemID{255, 255, 255, 255, 255, 255}, PseudonodeID: 255, LSPNumber: 255},
		TLVs: []packet.TLV{packet.NewLSPEntriesTLV([]*packet.LSPEntry{entry})}}
	usePSNP := ndBool()
	if usePSNP {
		l.processPSNP(a, &packet.PSNP{TLVs: []packet.TLV{packet.NewLSPEntriesTLV([]*packet.LSPEntry{entry})}})
	} else {
		l.processCSNP(a, csnp)
	}
	vReach("snpflags")
	e := l._getLSPDU(id)
	if usePSNP {
		if known {
			// ISO 10589 7.3.15.2 b: an entry equal to the stored copy acknowledges it (SRM cleared); one that is older
			// than the stored copy is answered with the stored copy (SRM set, SSN cleared); a newer one is requested
			switch {
			case s2 == s1:
				vAssert(!c32Has(e.srmFlags, a), "C32.psnp.same.clears.srm")
			case s1 > s2:
				vAssert(c32Has(e.srmFlags, a), "C32.psnp.older.ack.keeps.srm")
				vAssert(!c32Has(e.ssnFlags, a), "C32.psnp.older.ack.nossn")
			default:
				vAssert(!c32Has(e.srmFlags, a), "C32.psnp.newer.clears.srm")
				vAssert(c32Has(e.ssnFlags, a), "C32.psnp.newer.requested")
			}
		} else {
			// ISO 10589 7.3.15.2 b 5 allows (and for non-zero entries asks for) a placeholder with sequence number 0
			// and SSN set; bio-rd ignores unknown ids in PSNPs. Either is accepted; what must never happen is a send
			// flag or a non-zero sequence number for an LSP we do not have
			if e != nil {
				vAssert(e.lspdu.SequenceNumber == 0, "C32.psnp.unknown.placeholder.seq0")
				vAssert(!c32Has(e.srmFlags, a), "C32.psnp.unknown.nosrm")
			}
		}
		return
	}
	if !known {
		vAssert(e != nil && e.lspdu.SequenceNumber == 0, "C32.csnp.unknown.placeholder")
		if e != nil {
			vAssert(c32Has(e.ssnFlags, a), "C32.csnp.unknown.ssn")
			vAssert(!c32Has(e.srmFlags, a), "C32.csnp.unknown.nosrm")
		}
		return
	}
	switch {
	case s2 == s1:
		vAssert(!c32Has(e.srmFlags, a), "C32.csnp.same.srm")
	case s1 > s2: // we have the newer copy: send it
		vAssert(c32Has(e.srmFlags, a), "C32.csnp.newer.srm")
		vAssert(!c32Has(e.ssnFlags, a), "C32.csnp.newer.ssn")
	default: // neighbour has the newer copy: request it
		vAssert(!c32Has(e.srmFlags, a), "C32.csnp.older.srm")
		vAssert(c32Has(e.ssnFlags, a), "C32.csnp.older.ssn")
	}
}

// ageing: lifetimes only ever go down by one per tick, entries at 0/1 disappear, the own LSP is refreshed in time
func VC32_Ageing() {
	srv, a, _ := c32Setup()
	l := srv.lsdbL2
	life := ndU16()
	l.processLSP(a, c32LSP(1, 5, life))
	srv.lsdbL2.updateL2LSP()
	own := l._getLSPDU(packet.LSPID{SystemID: c32Own})
	vAssert(own != nil, "C32.age.own.present")
	ownLife := ndU16()
	own.lspdu.RemainingLifetime = ownLife
	seqBefore := own.lspdu.SequenceNumber
	l.decrementRemainingLifetimes()
	vReach("ageing")
	e := l._getLSPDU(packet.LSPID{SystemID: types.SystemID{7, 7, 7, 7, 7, 1}})
	if life <= 1 {
		vAssert(e == nil, "C32.age.expired.removed")
	} else {
		vAssert(e != nil, "C32.age.kept")
		if e != nil {
			vAssert(e.lspdu.RemainingLifetime == life-1, "C32.age.decrement")
		}
	}
	// refresh is requested while the own LSP still has lifetime left (threshold 300 s)
	pending := len(l.refreshCh) == 1
	vAssert(vImplies(ownLife < lspRefreshThresholdSeconds, pending), "C32.age.refresh.requested")
	if pending {
		<-l.refreshCh
		l.updateL2LSP()
		own2 := l._getLSPDU(packet.LSPID{SystemID: c32Own})
		vAssert(own2 != nil && own2.lspdu.SequenceNumber > seqBefore, "C32.age.refresh.newer")
	}
}

// the own LSP out-numbers any copy of it received from the network
func VC32_OwnLSP() {
	srv, a, _ := c32Setup()
	l := srv.lsdbL2
	l.updateL2LSP()
	seq := ndU32()
	vAssume(seq != 0)
	vAssume(seq < 0xfffffff0)
	rcv := &packet.LSPDU{RemainingLifetime: 1200, LSPID: packet.LSPID{SystemID: c32Own}, SequenceNumber: seq}
	l.processLSP(a, rcv)
	// whatever the implementation does on receipt, once it regenerates its LSP it must exceed the received number
	if len(l.refreshCh) == 1 {
		<-l.refreshCh
	}
	l.updateL2LSP()
	vReach("ownlsp")
	own := l._getLSPDU(packet.LSPID{SystemID: c32Own})
	vKnown("C32-1", true)
	vAssert(own != nil && own.lspdu.SequenceNumber > seq, "C32.own.outnumbers")
}

func VC32_Twin() {
	_, _, _ = c32Setup()
	vAssert(false, "C32.twin")
}
