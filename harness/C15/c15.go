package net

// C15 — prefix and address arithmetic vs. bit-level definitions written on raw words.
// All inputs are full-width symbolic; the only assumptions are the documented domains (lengths 0..32 / 0..128).

func refMask64(n uint8) uint64 { // top n bits of a 64-bit word, n in 0..64
	if n == 0 {
		return 0
	}
	return ^uint64(0) << (64 - n)
}
func refMask32(n uint8) uint32 {
	if n == 0 {
		return 0
	}
	return ^uint32(0) << (32 - n)
}
func refTopEq6(ah, al, bh, bl uint64, n uint8) bool { // the top n bits (0..128) of a and b agree
	if n <= 64 {
		m := refMask64(n)
		return ah&m == bh&m
	}
	m := refMask64(n - 64)
	if ah != bh {
		return false
	}
	return al&m == bl&m
}
func refCanon6(h, l uint64, n uint8) bool { // no host bit set
	if n <= 64 {
		if l != 0 {
			return false
		}
		return h&^refMask64(n) == 0
	}
	return l&^refMask64(n-64) == 0
}

func VC15_Contains4() {
	p := NewPfx(IPv4(ndU32()), ndU8())
	q := NewPfx(IPv4(ndU32()), ndU8())
	vAssume(p.len <= 32)
	vAssume(q.len <= 32)
	got := p.Contains(&q)
	m := refMask32(p.len)
	want := false
	if q.len > p.len {
		want = uint32(p.addr.lower)&m == uint32(q.addr.lower)&m
	}
	vReach("contains4")
	vObserve(b2u(got))
	vAssert(got == want, "C15.contains4")
}

func VC15_Contains6() {
	p := NewPfx(IPv6(ndU64(), ndU64()), ndU8())
	q := NewPfx(IPv6(ndU64(), ndU64()), ndU8())
	vAssume(p.len <= 128)
	vAssume(q.len <= 128)
	got := p.Contains(&q)
	want := false
	if q.len > p.len {
		want = refTopEq6(p.addr.higher, p.addr.lower, q.addr.higher, q.addr.lower, p.len)
	}
	vReach("contains6")
	vObserve(b2u(got))
	vAssert(got == want, "C15.contains6")
}

func b2u(b bool) uint64 {
	if b {
		return 1
	}
	return 0
}

func VC15_Equal() {
	p := NewPfx(IP{higher: ndU64(), lower: ndU64(), isLegacy: ndBool()}, ndU8())
	q := NewPfx(IP{higher: ndU64(), lower: ndU64(), isLegacy: ndBool()}, ndU8())
	got := p.Equal(&q)
	want := p.addr.higher == q.addr.higher
	if p.addr.lower != q.addr.lower {
		want = false
	}
	if p.addr.isLegacy != q.addr.isLegacy {
		want = false
	}
	if p.len != q.len {
		want = false
	}
	vReach("equal")
	vObserve(b2u(got))
	vAssert(got == want, "C15.equal")
}

func VC15_BitAt4() {
	a := IPv4(ndU32())
	pos := ndU8()
	vAssume(pos >= 1)
	vAssume(pos <= 32)
	got := a.BitAtPosition(pos)
	want := (uint32(a.lower)>>(32-pos))&1 == 1
	vReach("bitat4")
	vAssert(got == want, "C15.bitat4")
}

func VC15_BitAt6() {
	a := IPv6(ndU64(), ndU64())
	pos := ndU8()
	vAssume(pos >= 1)
	vAssume(pos <= 128)
	got := a.BitAtPosition(pos)
	var want bool
	if pos <= 64 {
		want = (a.higher>>(64-pos))&1 == 1
	} else {
		want = (a.lower>>(128-pos))&1 == 1
	}
	vReach("bitat6")
	vObserve(b2u(got))
	vAssert(got == want, "C15.bitat6")
}

// GetSupernet: precondition = the way the trie calls it: both canonical, neither contains or equals the other.
func VC15_Supernet4() {
	p := NewPfx(IPv4(ndU32()), ndU8())
	q := NewPfx(IPv4(ndU32()), ndU8())
	vAssume(p.len <= 32)
	vAssume(q.len <= 32)
	ml := p.len
	if q.len < ml {
		ml = q.len
	}
	a, b := uint32(p.addr.lower), uint32(q.addr.lower)
	vAssume(a&^refMask32(p.len) == 0)
	vAssume(b&^refMask32(q.len) == 0)
	vAssume(a&refMask32(ml) != b&refMask32(ml))
	s := p.GetSupernet(&q)
	vReach("supernet4")
	sa := uint32(s.addr.lower)
	vObserve(uint64(s.len))
	vObserve(uint64(sa))
	vAssert(s.len < ml, "C15.super4.len")
	vAssert(a&refMask32(s.len) == b&refMask32(s.len), "C15.super4.common")
	vAssert(a&refMask32(s.len+1) != b&refMask32(s.len+1), "C15.super4.maximal")
	vAssert(sa == a&refMask32(s.len), "C15.super4.addr")
	vAssert(s.addr.isLegacy, "C15.super4.family")
}

func VC15_Supernet6() {
	p := NewPfx(IPv6(ndU64(), ndU64()), ndU8())
	q := NewPfx(IPv6(ndU64(), ndU64()), ndU8())
	vAssume(p.len <= 128)
	vAssume(q.len <= 128)
	vAssume(refCanon6(p.addr.higher, p.addr.lower, p.len))
	vAssume(refCanon6(q.addr.higher, q.addr.lower, q.len))
	ml := p.len
	if q.len < ml {
		ml = q.len
	}
	lo, hi := uint8(vParam("lenlo")), uint8(vParam("lenhi"))
	vAssume(ml >= lo)
	vAssume(ml <= hi)
	vAssume(!refTopEq6(p.addr.higher, p.addr.lower, q.addr.higher, q.addr.lower, ml))
	s := p.GetSupernet(&q)
	vReach("supernet6")
	vObserve(uint64(s.len))
	vObserve(s.addr.higher)
	vObserve(s.addr.lower)
	vAssert(s.len < ml, "C15.super6.len")
	vAssert(refTopEq6(p.addr.higher, p.addr.lower, q.addr.higher, q.addr.lower, s.len), "C15.super6.common")
	vAssert(!refTopEq6(p.addr.higher, p.addr.lower, q.addr.higher, q.addr.lower, s.len+1), "C15.super6.maximal")
	vAssert(refTopEq6(p.addr.higher, p.addr.lower, s.addr.higher, s.addr.lower, s.len), "C15.super6.addr")
	vAssert(refCanon6(s.addr.higher, s.addr.lower, s.len), "C15.super6.canon")
	vAssert(!s.addr.isLegacy, "C15.super6.family")
}

func VC15_ValidBase4() {
	p := NewPfx(IPv4(ndU32()), ndU8())
	vAssume(p.len <= 32)
	a := uint32(p.addr.lower)
	vReach("validbase4")
	vAssert(p.Valid() == (a&^refMask32(p.len) == 0), "C15.valid4")
	ba := p.BaseAddr()
	vObserve(ba.lower)
	vAssert(uint32(ba.lower) == a&refMask32(p.len), "C15.base4")
	vAssert(ba.isLegacy, "C15.base4.family")
	vAssert(ba.higher == 0, "C15.base4.high")
}

func VC15_ValidBase6() {
	p := NewPfx(IPv6(ndU64(), ndU64()), ndU8())
	vAssume(p.len <= 128)
	vReach("validbase6")
	vAssert(p.Valid() == refCanon6(p.addr.higher, p.addr.lower, p.len), "C15.valid6")
	ba := p.BaseAddr()
	vObserve(ba.higher)
	vObserve(ba.lower)
	var wh, wl uint64
	if p.len <= 64 {
		wh, wl = p.addr.higher&refMask64(p.len), 0
	} else {
		wh, wl = p.addr.higher, p.addr.lower&refMask64(p.len-64)
	}
	vAssert(ba.higher == wh, "C15.base6.high")
	vAssert(ba.lower == wl, "C15.base6.low")
	vAssert(!ba.isLegacy, "C15.base6.family")
}

func VC15_Compare() {
	a := IP{higher: ndU64(), lower: ndU64(), isLegacy: false}
	b := IP{higher: ndU64(), lower: ndU64(), isLegacy: false}
	got := a.Compare(&b)
	var want int8
	switch {
	case a.higher > b.higher:
		want = 1
	case a.higher < b.higher:
		want = -1
	case a.lower > b.lower:
		want = 1
	case a.lower < b.lower:
		want = -1
	}
	vReach("compare")
	vObserve(uint64(uint8(got)))
	vAssert(got == want, "C15.compare")
	// antisymmetry and consistency with Equal
	vAssert(b.Compare(&a) == -got, "C15.compare.antisym")
	vAssert((got == 0) == a.Equal(b), "C15.compare.equal")
}

func VC15_Mask() {
	n := ndU8()
	a4 := IPv4(ndU32())
	vAssume(n <= 128)
	if n <= 32 {
		m := a4.MaskLastNBits(n)
		var want uint32
		if n < 32 {
			want = uint32(a4.lower) >> n << n
		}
		vAssert(uint32(m.lower) == want, "C15.mask4")
		vAssert(m.isLegacy, "C15.mask4.family")
	}
	a6 := IPv6(ndU64(), ndU64())
	m6 := a6.MaskLastNBits(n)
	var wh, wl uint64
	switch {
	case n == 0:
		wh, wl = a6.higher, a6.lower
	case n < 64:
		wh, wl = a6.higher, a6.lower>>n<<n
	case n == 64:
		wh, wl = a6.higher, 0
	case n < 128:
		wh, wl = a6.higher>>(n-64)<<(n-64), 0
	default:
		wh, wl = 0, 0
	}
	vReach("mask")
	vObserve(m6.higher)
	vObserve(m6.lower)
	vAssert(m6.higher == wh, "C15.mask6.high")
	vAssert(m6.lower == wl, "C15.mask6.low")
}

func VC15_Next() {
	a := IPv6(ndU64(), ndU64())
	n := a.Next()
	wl := a.lower + 1
	wh := a.higher
	if wl == 0 {
		wh++
	}
	vReach("next")
	vAssert(n.lower == wl, "C15.next6.low")
	vAssert(n.higher == wh, "C15.next6.high")
	a4 := IPv4(ndU32())
	vAssume(uint32(a4.lower) != 0xffffffff)
	n4 := a4.Next()
	vAssert(n4.lower == a4.lower+1, "C15.next4")
	vAssert(n4.isLegacy, "C15.next4.family")
}

// Bytes()/IPFromBytes/IPv4FromBytes round trips (the binary half of "printing then parsing").
func VC15_Bytes6() {
	a := IPv6(ndU64(), ndU64())
	b := a.Bytes()
	vAssert(len(b) == 16, "C15.bytes6.len")
	var h, l uint64
	for i := 0; i < 8; i++ {
		h = h<<8 | uint64(b[i])
		l = l<<8 | uint64(b[8+i])
	}
	vReach("bytes6")
	vAssert(h == a.higher, "C15.bytes6.high")
	vAssert(l == a.lower, "C15.bytes6.low")
	arr := a.To16BytesArray()
	vAssert(arr[0] == b[0], "C15.bytes6.arr0")
	vAssert(arr[15] == b[15], "C15.bytes6.arr15")
}

func VC15_Bytes4() {
	a := IPv4(ndU32())
	b := a.Bytes()
	vAssert(len(b) == 4, "C15.bytes4.len")
	u := uint32(b[0])<<24 | uint32(b[1])<<16 | uint32(b[2])<<8 | uint32(b[3])
	vReach("bytes4")
	vAssert(u == uint32(a.lower), "C15.bytes4.value")
	back := IPv4FromBytes(b)
	vAssert(back == a, "C15.bytes4.roundtrip")
	n := vChoice(4)
	part := IPv4FromBytes(b[:n])
	vAssert(uint32(part.lower) == uint32(a.lower)&refMask32(uint8(8*n)), "C15.bytes4.partial")
	vAssert(part.isLegacy, "C15.bytes4.partial.family")
}

func VC15_Twin() {
	p := NewPfx(IPv4(ndU32()), ndU8())
	vAssume(p.len <= 32)
	_ = p.Valid()
	vAssert(false, "C15.twin")
}
