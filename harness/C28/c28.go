package server

import (
	"net"

	bnet "github.com/bio-routing/bio-rd/net"
	"github.com/bio-routing/bio-rd/route"
	"github.com/bio-routing/bio-rd/routingtable"
	"github.com/bio-routing/bio-rd/routingtable/filter"
	"github.com/bio-routing/bio-rd/routingtable/locRIB"
)

// C28 — the BMP receiver's per-VRF tables mirror the monitored sessions. BMP messages are built as bytes and go
// through the real Router.processMsg (decoder included); a small model of "announced and not withdrawn by an up
// peer" is compared with the tables after every message.

type c28Conn struct {
	net.Conn
	closed bool
}

func (c *c28Conn) Close() error { c.closed = true; return nil }

// an observer of a VRF table
type c28Observer struct {
	routingtable.RouteTableClient
	present  [2]int // per prefix: AddPath minus RemovePath
	disposed bool
}

func c28PfxIndex(p *bnet.Prefix) int {
	if p.Equal(c28Pfx(0)) {
		return 0
	}
	return 1
}
func (o *c28Observer) AddPath(p *bnet.Prefix, _ *route.Path) error {
	o.present[c28PfxIndex(p)]++
	return nil
}
func (o *c28Observer) AddPathInitialDump(p *bnet.Prefix, _ *route.Path) error {
	o.present[c28PfxIndex(p)]++
	return nil
}
func (o *c28Observer) RemovePath(p *bnet.Prefix, _ *route.Path) bool {
	o.present[c28PfxIndex(p)]--
	return true
}
func (o *c28Observer) EndOfRIB()                                          {}
func (o *c28Observer) Dispose()                                           { o.disposed = true }
func (o *c28Observer) RefreshRoute(*bnet.Prefix, []*route.Path)           {}
func (o *c28Observer) ReplaceFilterChain(filter.Chain)                    {}
func (o *c28Observer) ReplacePath(*bnet.Prefix, *route.Path, *route.Path) {}

func c28Pfx(i int) *bnet.Prefix { return bnet.NewPfx(bnet.IPv4(uint32(0x0a140000+i<<8)), 24).Ptr() }

type c28Peer struct {
	rd   uint64
	addr uint32
	as   uint32
}

var c28Peers = [3]c28Peer{{0, 0x0a000101, 65101}, {0, 0x0a000102, 65102}, {1, 0x0a000101, 65101}}

func c28Common(t uint8, body []byte) []byte {
	l := 6 + len(body)
	m := []byte{3, uint8(l >> 24), uint8(l >> 16), uint8(l >> 8), uint8(l), t}
	return append(m, body...)
}

func c28PerPeer(p c28Peer, flags uint8) []byte {
	h := []byte{0, flags, 0, 0, 0, 0, 0, 0, 0, uint8(p.rd)}
	h = append(h, 0, 0, 0, 0, 0, 0, 0, 0, 0, 0, 0, 0, uint8(p.addr>>24), uint8(p.addr>>16), uint8(p.addr>>8), uint8(p.addr))
	h = append(h, uint8(p.as>>24), uint8(p.as>>16), uint8(p.as>>8), uint8(p.as))
	h = append(h, 10, 0, 0, 9) // BGP ID
	h = append(h, 0, 0, 0, 1, 0, 0, 0, 0)
	return h
}

func c28Open(as uint16, id uint32) []byte {
	m := make([]byte, 0, 29)
	for i := 0; i < 16; i++ {
		m = append(m, 0xff)
	}
	return append(m, 0, 29, 1, 4, uint8(as>>8), uint8(as), 0, 90, uint8(id>>24), uint8(id>>16), uint8(id>>8), uint8(id), 0)
}

func c28PeerUp(p c28Peer) []byte {
	b := c28PerPeer(p, 0)
	b = append(b, 0, 0, 0, 0, 0, 0, 0, 0, 0, 0, 0, 0, 10, 0, 255, 1) // local address
	b = append(b, 0, 179, 0xc0, 0x01)                                  // ports
	b = append(b, c28Open(65000, 0x0a00ff01)...)                      // sent by the monitored router
	b = append(b, c28Open(uint16(p.as), p.addr)...)                   // received from the peer
	return c28Common(3, b)
}

func c28PeerDown(p c28Peer) []byte {
	b := c28PerPeer(p, 0)
	b = append(b, 4) // remote system closed the session, no data
	return c28Common(2, b)
}

func c28Update(p c28Peer, i int, withdraw bool, postPolicy bool, med uint8, viaOwnAS bool) []byte {
	var body []byte
	pfx := []byte{24, 10, 20, uint8(i)}
	if withdraw {
		body = append(body, 0, 4)
		body = append(body, pfx...)
		body = append(body, 0, 0)
	} else {
		second := uint32(65300)
		if viaOwnAS {
			second = 65000 // the monitored router's own AS further down the path (allowas-in style): still a route of the peer
		}
		attrs := []byte{0x40, 1, 1, 0, 0x40, 2, 10, 2, 2, uint8(p.as >> 24), uint8(p.as >> 16), uint8(p.as >> 8), uint8(p.as),
			uint8(second >> 24), uint8(second >> 16), uint8(second >> 8), uint8(second),
			0x40, 3, 4, uint8(p.addr >> 24), uint8(p.addr >> 16), uint8(p.addr >> 8), uint8(p.addr), 0x80, 4, 4, 0, 0, 0, med}
		body = append(body, 0, 0, 0, uint8(len(attrs)))
		body = append(body, attrs...)
		body = append(body, pfx...)
	}
	l := 19 + len(body)
	u := make([]byte, 0, l)
	for k := 0; k < 16; k++ {
		u = append(u, 0xff)
	}
	u = append(u, uint8(l>>8), uint8(l), 2)
	u = append(u, body...)
	flags := uint8(0)
	if postPolicy {
		flags |= 0x40
	}
	return c28Common(0, append(c28PerPeer(p, flags), u...))
}

func c28Termination() []byte {
	return c28Common(5, []byte{0, 1, 0, 2, 0, 0}) // reason TLV: administratively closed
}

type c28Model struct {
	up  [3]bool
	ann [3][2]bool
}

func (m *c28Model) clearPeer(p int) {
	m.up[p] = false
	m.ann[p] = [2]bool{}
}

func (m *c28Model) count(rd uint64, i int) int {
	n := 0
	for p := range c28Peers {
		if c28Peers[p].rd == rd && m.up[p] && m.ann[p][i] {
			n++
		}
	}
	return n
}

func c28Check(r *Router, m *c28Model, obs *[2]*c28Observer, obsRIB *[2]*locRIB.LocRIB) {
	for rd := uint64(0); rd < 2; rd++ {
		v := r.GetVRF(rd)
		var rib *locRIB.LocRIB
		if v != nil {
			rib = v.IPv4UnicastRIB()
		}
		for i := 0; i < 2; i++ {
			want := m.count(rd, i)
			got := 0
			if rib != nil {
				if rt := rib.Get(c28Pfx(i)); rt != nil {
					got = len(rt.Paths())
				}
			}
			vAssert(got == want, "C28.table.mirrors.sessions")
			// the observer of this VRF's table sees the prefix iff the table has it
			if o := obs[rd]; o != nil && !o.disposed && rib == obsRIB[rd] {
				vAssert((o.present[i] > 0) == (want > 0), "C28.observer.informed")
			}
		}
	}
}

func VC28_History() {
	r := newRouter(net.IP{10, 0, 255, 1}, 0, adjRIBInFactory{}, RouterConfig{})
	cc := &c28Conn{}
	r.con = cc
	m := &c28Model{}
	var obs [2]*c28Observer
	var obsRIB [2]*locRIB.LocRIB
	k := vParam("k")
	if vParam("preup") == 1 {
		// all three sessions are up and have announced prefix 0
		for p := range c28Peers {
			r.processMsg(c28PeerUp(c28Peers[p]))
			r.processMsg(c28Update(c28Peers[p], 0, false, false, 7, false))
			m.up[p], m.ann[p][0] = true, true
		}
		for rd := uint64(0); rd < 2; rd++ {
			obs[rd] = &c28Observer{}
			obsRIB[rd] = r.GetVRF(rd).IPv4UnicastRIB()
			obsRIB[rd].Register(obs[rd])
		}
		c28Check(r, m, &obs, &obsRIB)
		if vParam("reconnect") >= 1 {
			// the BMP connection is lost (or, reconnect == 2, terminated) and the router connects again
			if vParam("reconnect") == 2 {
				r.processMsg(c28Termination())
			}
			r.cleanup()
			for q := range m.up {
				m.clearPeer(q)
			}
			cc = &c28Conn{}
			r.con = cc
			c28Check(r, m, &obs, &obsRIB)
		}
	}
	for step := 0; step < k; step++ {
		ev := vChoice(6)
		p := vChoice(3)
		i := 0
		if ev == 2 || ev == 3 {
			i = vChoice(2)
		}
		switch ev {
		case 0: // peer up
			r.processMsg(c28PeerUp(c28Peers[p]))
			if !m.up[p] {
				m.up[p] = true
			}
			rd := c28Peers[p].rd
			if v := r.GetVRF(rd); v != nil && (obs[rd] == nil || obs[rd].disposed || obsRIB[rd] != v.IPv4UnicastRIB()) {
				obs[rd] = &c28Observer{}
				obsRIB[rd] = v.IPv4UnicastRIB()
				obsRIB[rd].Register(obs[rd])
			}
		case 1: // peer down
			r.processMsg(c28PeerDown(c28Peers[p]))
			m.clearPeer(p)
		case 2: // announce prefix i (pre-policy)
			r.processMsg(c28Update(c28Peers[p], i, false, false, ndU8(), ndBool()))
			if m.up[p] {
				m.ann[p][i] = true
			}
		case 3: // withdraw prefix i
			r.processMsg(c28Update(c28Peers[p], i, true, false, 0, false))
			if m.up[p] {
				m.ann[p][i] = false
			}
		case 4: // termination message; the router closes the connection and serve() cleans up
			r.processMsg(c28Termination())
			vAssert(cc.closed, "C28.termination.closes")
			r.cleanup()
			for q := range m.up {
				m.clearPeer(q)
			}
			for rd := range obs {
				if obs[rd] != nil {
					vAssert(obs[rd].disposed, "C28.observer.disposed")
				}
			}
		case 5: // the BMP connection is lost
			r.cleanup()
			for q := range m.up {
				m.clearPeer(q)
			}
			for rd := range obs {
				if obs[rd] != nil {
					vAssert(obs[rd].disposed, "C28.observer.disposed")
				}
			}
		}
		c28Check(r, m, &obs, &obsRIB)
	}
	vReach("history")
}

func VC28_Twin() {
	r := newRouter(net.IP{10, 0, 255, 1}, 0, adjRIBInFactory{}, RouterConfig{})
	_ = r
	vAssert(false, "C28.twin")
}
