package packet

import "bytes"

// C16 — BGP message decoding is total and bounded: every decoder unit on an arbitrary N-byte buffer
// (arbitrary contents over-approximate whatever the glue hands to a unit), the glue loops, and Decode end to end.
// The verification conditions are the automatic ones (no panic of any kind, every loop within its unwind bound,
// every allocation within alloc_limit) plus "error => nil message".

// a buffer of any length 0..n (the length is a forked choice, the contents are symbolic)
func c16Buf() []byte {
	n := vParam("n")
	data := ndBytes(n)
	if vParam("anylen") == 1 {
		return data[:vChoice(n+1)]
	}
	return data
}

func c16Opt() *DecodeOptions {
	return &DecodeOptions{AddPathIPv4Unicast: ndBool(), AddPathIPv6Unicast: ndBool(), Use32BitASN: ndBool(), ExtendedNextHop: ndBool()}
}

func VC16_Header() {
	data := ndBytes(vParam("n"))
	hdr, err := decodeHeader(bytes.NewBuffer(data))
	vReach("unit")
	if err == nil {
		vAssert(hdr != nil, "C16.header.nonnil")
		vAssert(hdr.Length >= MinLen, "C16.header.minlen")
		vAssert(hdr.Length <= MaxLen, "C16.header.maxlen")
	}
}

func VC16_Open() {
	data := ndBytes(vParam("n"))
	msg, err := DecodeOpenMsg(bytes.NewBuffer(data))
	vReach("unit")
	vAssert(vImplies(err != nil, msg == nil), "C16.open.nilOnError")
}

func VC16_Capability() {
	data := ndBytes(vParam("n"))
	_, _ = decodeCapability(bytes.NewBuffer(data))
	vReach("unit")
}

func VC16_OptParams() {
	data := ndBytes(vParam("n"))
	_, _ = decodeOptParams(bytes.NewBuffer(data), ndU8())
	vReach("unit")
}

func VC16_Notification() {
	data := ndBytes(vParam("n"))
	msg, err := decodeNotificationMsg(bytes.NewBuffer(data))
	vReach("unit")
	vAssert(vImplies(err == nil, msg != nil), "C16.notification.nonnil")
}

func VC16_PathAttr() {
	data := ndBytes(vParam("n"))
	if t := vParam("type"); t >= 0 {
		vAssume(data[1] == uint8(t))
	} else if t == -2 { // anything but the multiprotocol attributes (they have their own units)
		vAssume(data[1] != MultiProtocolReachNLRIAttr)
		vAssume(data[1] != MultiProtocolUnreachNLRIAttr)
	}
	pa, _, err := decodePathAttr(bytes.NewBuffer(data), c16Opt())
	vReach("unit")
	vAssert(vImplies(err == nil, pa != nil), "C16.pathattr.nonnil")
}

func VC16_PathAttrs() {
	data := ndBytes(vParam("n"))
	tpal := ndU16()
	vAssume(tpal <= uint16(vParam("n")+4))
	_, _ = decodePathAttrs(bytes.NewBuffer(data), tpal, c16Opt())
	vReach("unit")
}

func VC16_NLRIs() {
	data := ndBytes(vParam("n"))
	l := ndU16()
	vAssume(l <= uint16(vParam("n")+4))
	afi := uint16(AFIIPv4)
	if ndBool() {
		afi = AFIIPv6
	}
	safi := uint8(SAFIUnicast)
	if ndBool() {
		safi = SAFILabeledUnicast
	}
	_, _ = decodeNLRIs(bytes.NewBuffer(data), l, afi, safi, ndBool())
	vReach("unit")
}

// one NLRI from an arbitrary buffer (the unit the list loops are built from)
func VC16_NLRI() {
	data := c16Buf()
	afi := uint16(AFIIPv4)
	if ndBool() {
		afi = AFIIPv6
	}
	safi := uint8(SAFIUnicast)
	if ndBool() {
		safi = SAFILabeledUnicast
	}
	nlri, consumed, err := decodeNLRI(bytes.NewBuffer(data), afi, safi, ndBool())
	vReach("unit")
	vAssert(vImplies(err == nil, nlri != nil), "C16.nlri.nonnil")
	_ = consumed
}

func VC16_MPReach() {
	data := c16Buf()
	if nh := vParam("nh"); nh >= 0 {
		vAssume(len(data) > 3)
		vAssume(data[3] == uint8(nh))
	}
	_, _ = deserializeMultiProtocolReachNLRI(data, c16Opt())
	vReach("unit")
}

func VC16_MPUnreach() {
	data := c16Buf()
	_, _ = deserializeMultiProtocolUnreachNLRI(data, c16Opt())
	vReach("unit")
}

func VC16_Update() {
	n := vParam("n")
	data := ndBytes(n)
	l := ndU16()
	vAssume(l <= uint16(n+4))
	_, _ = decodeUpdateMsg(bytes.NewBuffer(data), l, c16Opt())
	vReach("unit")
}

// Decode end to end: valid marker (concrete), everything else symbolic; exact-length buffer of 19+k bytes
func VC16_Decode() {
	k := vParam("k")
	data := make([]byte, 0, 19+k)
	for i := 0; i < 16; i++ {
		data = append(data, 0xff)
	}
	data = append(data, ndBytes(3+k)...)
	if t := vParam("type"); t >= 0 {
		vAssume(data[18] == uint8(t))
	}
	msg, err := Decode(bytes.NewBuffer(data), c16Opt())
	vReach("decode")
	vAssert(vImplies(err != nil, msg == nil), "C16.decode.nilOnError")
	vAssert(vImplies(err == nil, msg != nil), "C16.decode.nonnil")
}

func VC16_Twin() {
	data := ndBytes(19)
	_, _ = decodeHeader(bytes.NewBuffer(data))
	vAssert(false, "C16.twin")
}
