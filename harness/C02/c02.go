package locRIB

import (
	bnet "github.com/bio-routing/bio-rd/net"
	"github.com/bio-routing/bio-rd/protocols/bgp/types"
	"github.com/bio-routing/bio-rd/route"
)

// C02 — best path / ECMP selection independent of arrival order.
// H1: Select is a total preorder compatible with ECMP (antisymmetric, transitive, ties only between paths that
//     agree in every decision attribute); H2: the Loc-RIB's best path and ECMP set are the same for all n! arrival orders.

func c02BGP(cl int) *route.Path {
	nh := bnet.IPv6(ndU64(), ndU64())
	src := bnet.IPv6(ndU64(), ndU64())
	p := &route.BGPPath{
		BGPPathA: &route.BGPPathA{
			NextHop: &nh, Source: &src,
			LocalPref: ndU32(), MED: ndU32(), BGPIdentifier: ndU32(), OriginatorID: ndU32(),
			EBGP: ndBool(), Origin: ndU8(),
		},
		ASPathLen: ndU16(),
		// a populated AS_PATH (first ASN = neighbouring AS, symbolic): the decision must not depend on it beyond ASPathLen
		ASPath: &types.ASPath{{Type: types.ASSequence, ASNs: []uint32{ndU32(), ndU32()}}},
	}
	switch cl { // 0: attribute absent; 1: one cluster id; 2: two cluster ids
	case 1:
		l := make(types.ClusterList, 1)
		p.ClusterList = &l
	case 2:
		l := make(types.ClusterList, 2)
		p.ClusterList = &l
	}
	return &route.Path{Type: route.BGPPathType, BGPPath: p}
}

func c02Rel(a, b, c *route.Path, tag string) {
	ab, ba := a.Select(b), b.Select(a)
	bc, ac := b.Select(c), a.Select(c)
	vReach("rel")
	vObserve(uint64(uint8(ab)))
	vObserve(uint64(uint8(bc)))
	vObserve(uint64(uint8(ac)))
	vAssert(ab == -ba, "C02.antisym."+tag)
	ge := vAnd(ab >= 0, bc >= 0)
	vAssert(vImplies(ge, ac >= 0), "C02.trans."+tag)
	vAssert(vImplies(vAnd(ge, vOr(ab > 0, bc > 0)), ac > 0), "C02.trans.strict."+tag)
	vAssert(a.Select(a) == 0, "C02.refl."+tag)
}

func VC02_RelBGP() {
	a := c02BGP(vParam("cl"))
	b := c02BGP(vChoice(3))
	c := c02BGP(vChoice(3))
	c02Rel(a, b, c, "bgp")
}

// a tie (Select == 0) only between BGP paths that agree in every attribute the decision process looks at
func VC02_TiesBGP() {
	a := c02BGP(vChoice(3))
	b := c02BGP(vChoice(3))
	x, y := a.BGPPath, b.BGPPath
	tie := a.Select(b) == 0
	ida, idb := x.BGPPathA.BGPIdentifier, y.BGPPathA.BGPIdentifier
	if x.BGPPathA.OriginatorID != 0 {
		ida = x.BGPPathA.OriginatorID
	}
	if y.BGPPathA.OriginatorID != 0 {
		idb = y.BGPPathA.OriginatorID
	}
	la, lb := 0, 0
	if x.ClusterList != nil {
		la = len(*x.ClusterList)
	}
	if y.ClusterList != nil {
		lb = len(*y.ClusterList)
	}
	vReach("ties")
	vAssert(vImplies(tie, x.BGPPathA.LocalPref == y.BGPPathA.LocalPref), "C02.tie.localpref")
	vAssert(vImplies(tie, x.ASPathLen == y.ASPathLen), "C02.tie.aspathlen")
	vAssert(vImplies(tie, x.BGPPathA.Origin == y.BGPPathA.Origin), "C02.tie.origin")
	vAssert(vImplies(tie, x.BGPPathA.MED == y.BGPPathA.MED), "C02.tie.med")
	vAssert(vImplies(tie, x.BGPPathA.EBGP == y.BGPPathA.EBGP), "C02.tie.ebgp")
	vAssert(vImplies(tie, ida == idb), "C02.tie.identifier")
	vAssert(vImplies(tie, la == lb), "C02.tie.clusterlist")
	vAssert(vImplies(tie, *x.BGPPathA.Source == *y.BGPPathA.Source), "C02.tie.source")
}

func c02Static() *route.Path {
	nh := bnet.IPv6(ndU64(), ndU64())
	return &route.Path{Type: route.StaticPathType, StaticPath: &route.StaticPath{NextHop: &nh}}
}

func c02FIB() *route.Path {
	nh := bnet.IPv6(ndU64(), ndU64())
	src := bnet.IPv6(ndU64(), ndU64())
	return &route.Path{Type: route.FIBPathType, FIBPath: &route.FIBPath{NextHop: &nh, Src: &src,
		Priority: int(ndU32()), Protocol: int(ndU8()), Type: int(ndU8()), Table: int(ndU32())}}
}

func VC02_RelStatic() { c02Rel(c02Static(), c02Static(), c02Static(), "static") }
func VC02_RelFIB()    { c02Rel(c02FIB(), c02FIB(), c02FIB(), "fib") }

// mixed protocol types: the type comparison must itself be an order consistent with the per-type orders
func c02Any(k int) *route.Path {
	switch k {
	case 0:
		return c02Static()
	case 1:
		return c02BGP(0)
	}
	return c02FIB()
}

func VC02_RelMixed() {
	ka, kb, kc := vChoice(3), vChoice(3), vChoice(3)
	vAssume(ka != kb || kb != kc) // same-type triples are the entries above
	a, b, c := c02Any(ka), c02Any(kb), c02Any(kc)
	ab, ba := a.Select(b), b.Select(a)
	bc, ac := b.Select(c), a.Select(c)
	vReach("mixed")
	vAssert(ab == -ba, "C02.antisym.mixed")
	ge := vAnd(ab >= 0, bc >= 0)
	vAssert(vImplies(ge, ac >= 0), "C02.trans.mixed")
	vAssert(vImplies(vAnd(ge, vOr(ab > 0, bc > 0)), ac > 0), "C02.trans.strict.mixed")
}

// ---- H2: Loc-RIB, all arrival orders

func c02RibPath(i int) *route.Path {
	nh := bnet.IPv4(uint32(0x0a000000 + i))
	src := bnet.IPv4(uint32(0xc0000200 + i)) // distinct peers: paths are distinguishable, Select is never 0
	return &route.Path{Type: route.BGPPathType, BGPPath: &route.BGPPath{
		BGPPathA: &route.BGPPathA{
			NextHop: &nh, Source: &src,
			LocalPref: uint32(ndU8()), MED: uint32(ndU8()), BGPIdentifier: ndU32(), OriginatorID: ndU32(),
			EBGP: ndBool(), Origin: ndU8() & 3,
		},
		ASPathLen: uint16(ndU8()),
	}}
}

func c02Index(ps []*route.Path, p *route.Path) int {
	for i := range ps {
		if ps[i] == p {
			return i
		}
	}
	return -1
}

// result of inserting ps in the given order: index of the best path, ECMP count, membership bitmap of the ECMP set
func c02Insert(ps []*route.Path, order []int, extra *route.Path, extraAt int) (int, uint, uint64) {
	rib := New("c02")
	pfx := bnet.NewPfx(bnet.IPv4(0x0a000000), 8).Ptr()
	for k, i := range order {
		if extra != nil && k == extraAt {
			rib.AddPath(pfx, extra)
		}
		rib.AddPath(pfx, ps[i])
	}
	if extra != nil {
		if extraAt >= len(order) {
			rib.AddPath(pfx, extra)
		}
		rib.RemovePath(pfx, extra)
	}
	r := rib.Get(pfx)
	best := c02Index(ps, r.BestPath())
	var set uint64
	for _, p := range r.ECMPPaths() {
		set |= 1 << uint(c02Index(ps, p)+1)
	}
	return best, r.ECMPPathCount(), set
}

var c02Perms3 = [][]int{{0, 1, 2}, {0, 2, 1}, {1, 0, 2}, {1, 2, 0}, {2, 0, 1}, {2, 1, 0}}

func VC02_LocRIBOrders3() {
	ps := []*route.Path{c02RibPath(1), c02RibPath(2), c02RibPath(3)}
	b0, n0, s0 := c02Insert(ps, c02Perms3[0], nil, 0)
	vReach("orders3")
	vObserve(uint64(b0))
	vObserve(uint64(n0))
	vObserve(s0)
	for k := 1; k < len(c02Perms3); k++ {
		b, n, s := c02Insert(ps, c02Perms3[k], nil, 0)
		vAssert(b == b0, "C02.locrib.best")
		vAssert(n == n0, "C02.locrib.ecmpcount")
		vAssert(s == s0, "C02.locrib.ecmpset")
	}
}

// lighter attribute domain: only LOCAL_PREF and MED symbolic (8 bit), everything else concrete and distinct per peer
func c02RibPathLite(i int, id uint32) *route.Path {
	nh := bnet.IPv4(uint32(0x0a000000 + i))
	src := bnet.IPv4(uint32(0xc0000200 + i))
	return &route.Path{Type: route.BGPPathType, BGPPath: &route.BGPPath{
		BGPPathA: &route.BGPPathA{NextHop: &nh, Source: &src, LocalPref: uint32(ndU8() & 3), MED: uint32(ndU8() & 3), BGPIdentifier: id},
		ASPathLen: 2,
	}}
}

// an extra path that is added and later withdrawn must not change the outcome
func VC02_LocRIBExtra() {
	var ps []*route.Path
	var extra *route.Path
	if vParam("lite") == 1 {
		// identifiers chosen so that the extra path can be an equal-cost member without being the best path
		ps = []*route.Path{c02RibPathLite(1, 10), c02RibPathLite(2, 30), c02RibPathLite(3, 50)}
		extra = c02RibPathLite(4, 20+uint32(ndU8()&1)*20)
	} else {
		ps = []*route.Path{c02RibPath(1), c02RibPath(2), c02RibPath(3)}
		extra = c02RibPath(4)
	}
	b0, n0, s0 := c02Insert(ps, c02Perms3[0], nil, 0)
	at := vChoice(4)
	pi := vParam("perm")
	if pi < 0 {
		pi = vChoice(6)
	}
	perm := c02Perms3[pi]
	b, n, s := c02Insert(ps, perm, extra, at)
	vReach("extra")
	vAssert(b == b0, "C02.locrib.extra.best")
	vAssert(n == n0, "C02.locrib.extra.ecmpcount")
	vAssert(s == s0, "C02.locrib.extra.ecmpset")
}

func VC02_Twin() {
	a, b := c02BGP(0), c02BGP(1)
	_ = a.Select(b)
	vAssert(false, "C02.twin")
}
