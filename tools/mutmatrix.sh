#!/bin/bash
# usage: mutmatrix.sh [seed-name-glob]  — runs every seeded change against the check of its property (quick tier),
# appends one line per seed to /verif/seeded/RESULTS.tsv: seed <tab> check <tab> exit <tab> violations <tab> first label
cd /verif
pat=${1:-*}
for d in seeded/$pat/; do
  name=$(basename $d)
  [ -f "$d/patch.diff" ] || continue
  id=${name%%-*}; id=${id%r2}
  [ -d harness/$id ] || { echo -e "$name\t$id\tno-check\t0\t" >> seeded/RESULTS.tsv; continue; }
  line=$(tools/mutrun.sh $name $id quick 2>&1 | grep MUTRESULT)
  rc=$(echo "$line" | sed -E 's/.*exit=([0-9]+).*/\1/')
  nv=$(echo "$line" | sed -E 's/.*exit=[0-9]+ ([0-9]+) violations.*/\1/')
  lab=$(echo "$line" | grep -oE '(assert|panic|deadlock) "[^"]*"' | head -1 | cut -c1-120)
  [ -z "$rc" ] && rc="$line"
  echo -e "$name\t$id\t$rc\t$nv\t$lab" >> seeded/RESULTS.tsv
  echo "$name $id exit=$rc $lab"
done
