#!/usr/bin/env python3
"""Regenerates /verif/MANIFEST.json from the table below (claimed checks) — everything else is listed as not_applicable."""
import json, os
ROOT = '/verif'
props = [json.loads(l) for l in open(os.path.join(ROOT, 'properties.jsonl'))]
TECH = "bounded symbolic execution of the real code's go/ssa form into SMT (z3), counterexamples replayed natively"
LEVEL_NOTE_COMMON = ("Trusted base: go/packages+go/ssa (x/tools v0.29.0) for the SSA of /repo's working tree; the symgo executor and its stdlib models "
                     "(validated on every run by re-running solver-produced path witnesses on the compiled code); z3 5.1.0 (z3-new). "
                     "Holds only within the stated bounds; exit 2 = inconclusive (unknown / unwind bound / unsupported path / vacuous harness).")
# id -> (claim text, note on bounds, design section)
CLAIMED = {}
for _p in props:
    _f = os.path.join(ROOT, 'harness', _p['id'], 'descriptor.json')
    if os.path.exists(_f):
        _d = json.load(open(_f))
        if _d.get('claim'):
            CLAIMED[_p['id']] = (_d['claim'], _d.get('level_note', ''), _d.get('design_ref', '4 ' + _p['id']))
REASON_PENDING = "no check registered yet in this session (the SSA-to-SMT harness for it is not built); see DESIGN.md section 4 for the planned encoding"
NA = {}
checks = []
for p in props:
    pid = p['id']
    if pid in CLAIMED and os.path.exists(os.path.join(ROOT, 'harness', pid, 'descriptor.json')):
        text, note, ref = CLAIMED[pid]
        d = json.load(open(os.path.join(ROOT, 'harness', pid, 'descriptor.json')))
        c = {
            "property_id": pid,
            "quick_cmd": "/verif/check.sh %s quick" % pid,
            "evidence_file": "/verif/evidence/%s.json" % pid,
            "replay_cmd_template": "/verif/bin/symgo replay {path}",
            "engine": "symgo",
            "level_claimed": {"category": "model_checking", "text": text, "design_ref": "DESIGN.md section " + ref},
            "level_note": note + " " + LEVEL_NOTE_COMMON,
            "technique": d.get('technique') or TECH,
        }
        if any('thorough' in (e.get('tiers') or ['quick', 'thorough']) for e in d['entries']):
            c["thorough_cmd"] = "/verif/check.sh %s thorough" % pid
        checks.append(c)
    else:
        NA[pid] = NA.get(pid) or REASON_PENDING
# explicit not-applicable reasons override the pending text
try:
    for k, v in json.load(open(os.path.join(ROOT, 'tools', 'not_applicable.json'))).items():
        if k in NA:
            NA[k] = v
except FileNotFoundError:
    pass
m = {
 "version": 1,
 "setup_cmd": "cd /verif/engine && GOFLAGS=-mod=mod GOPROXY=off GOSUMDB=off GOTOOLCHAIN=local go build -o /verif/bin/symgo .",
 "hooks": {"guard": "verif", "enable": "no hooks: harnesses are injected with go/packages overlays (analysis) and `go test -overlay` (replay); /repo is never modified by a check",
           "baseline_off_cmd": json.load(open('/root/.vp/BASELINE.json'))['cmd'], "source_commits": [], "add_only": True},
 "engines": [{"name": "symgo", "path": "/verif/engine", "serves_properties": [c['property_id'] for c in checks],
              "kind_free_text": "symbolic executor for Go written for this task: go/ssa of /repo's working tree + overlay harness -> explicit-stack symbolic interpreter (forking, pure-callee merging, model reuse) -> SMT-LIB2 to an incremental z3; counterexamples and path witnesses are replayed on the compiled real code with go test -overlay"}],
 "checks": checks,
 "not_applicable": [{"property_id": k, "reason": v} for k, v in sorted(NA.items())],
 "notes": "Exit codes of every check: 0 held within the bounds (KNOWN-FINDING lines for listed findings), 1 with VIOLATION lines, 2 inconclusive. known_findings.txt lists repairs (fixed:) and open findings (known:).",
}
json.dump(m, open(os.path.join(ROOT, 'MANIFEST.json'), 'w'), indent=1)
print("claimed", len(checks), "not_applicable", len(NA))
