#!/bin/bash
# usage: confirm_mut.sh <ID> <mN>   — confirm a seeded change from /tmp/mut/out/<ID>/ in a scratch worktree of /repo HEAD:
#   applies, builds, whole suite passes with the change (without the demo), demo fails with it and passes without it.
# On success copies it to /verif/seeded/<ID>-<mN>/ {patch.diff, demo_test.go, meta.json}
set -u
export GOFLAGS=-mod=mod GOPROXY=off GOSUMDB=off GOTOOLCHAIN=local
id=$1; m=$2; out=/tmp/mut/out/$id; wt=/tmp/confirm/$id-$m
mkdir -p /tmp/confirm; rm -rf "$wt"; git -C /repo worktree prune
git -C /repo worktree add -q --detach "$wt" HEAD || exit 3
cleanup() { git -C /repo worktree remove --force "$wt" 2>/dev/null; }
trap cleanup EXIT
cd "$wt"
pkgdir=$(python3 - "$out/meta.json" "$m" <<'PY'
import json,sys
d=json.load(open(sys.argv[1]))
for x in d.get('mutations',[]):
    if x.get('name')==sys.argv[2]:
        print(x.get('demo_pkg_dir','')); break
PY
)
demo=$out/${m}_demo_test.go
[ -f "$demo" ] || { echo "RESULT $id $m no-demo"; exit 1; }
[ -n "$pkgdir" ] || { echo "RESULT $id $m no-pkgdir"; exit 1; }
git apply --check "$out/$m.diff" 2>/dev/null || { echo "RESULT $id $m patch-does-not-apply-on-HEAD"; exit 1; }
git apply "$out/$m.diff"
go build ./... 2>&1 | tail -3 || true
if ! go build ./... >/dev/null 2>&1; then echo "RESULT $id $m build-fails"; exit 1; fi
suite=$(go test -vet=off -count=1 -timeout 25m ./... 2>&1 | grep -E "^(FAIL|---|panic)" | head -5)
if [ -n "$suite" ]; then
  # one retry for flaky tests
  suite=$(go test -vet=off -count=1 -timeout 25m ./... 2>&1 | grep -E "^(FAIL|---|panic)" | head -5)
fi
if [ -n "$suite" ]; then echo "RESULT $id $m suite-fails-with-change: $suite"; exit 1; fi
cp "$demo" "$pkgdir/zz_demo_${id}_${m}_test.go"
with=$(go test -vet=off -count=1 -run 'Test' "./$pkgdir" 2>&1 | tail -30)
if echo "$with" | grep -q "^ok"; then echo "RESULT $id $m demo-passes-with-change"; exit 1; fi
git apply -R "$out/$m.diff"
without=$(go test -vet=off -count=1 "./$pkgdir" 2>&1 | tail -5)
if ! echo "$without" | grep -q "^ok"; then echo "RESULT $id $m demo-fails-without-change: $without"; exit 1; fi
dst=/verif/seeded/$id-$m; mkdir -p "$dst"
cp "$out/$m.diff" "$dst/patch.diff"; cp "$demo" "$dst/demo_test.go"
python3 - "$out/meta.json" "$m" "$id" "$pkgdir" > "$dst/meta.json" <<'PY'
import json,sys
d=json.load(open(sys.argv[1])); m=sys.argv[2]
x=[y for y in d.get('mutations',[]) if y.get('name')==m][0]
print(json.dumps({"property":sys.argv[3],"mutation":m,"files":x.get("files"),"demo_pkg_dir":sys.argv[4],
 "what_it_breaks":x.get("what_it_breaks"),"needs_to_manifest":x.get("needs_to_manifest"),
 "confirmed_by":"tools/confirm_mut.sh in a scratch worktree of /repo HEAD: patch applies, go build ./... ok, whole suite passes with the change, demo test fails with the change and passes without it",
 "source":"independent sub-agent given only the property text"},indent=1))
PY
echo "RESULT $id $m CONFIRMED"
