#!/bin/bash
# usage: mutcheck.sh <patch.diff> <check-id> [extra symgo args]  — apply a seeded change to /repo, run the check, undo.
set -u
patch=$1; id=$2; shift 2
cd /repo || exit 3
if ! git apply --check "$patch" 2>/dev/null; then echo "PATCH DOES NOT APPLY: $patch"; exit 3; fi
git apply "$patch"
trap 'git -C /repo checkout -- . ' EXIT
cd /verif && timeout 3000 ./bin/symgo check "$id" "$@"
echo "exit=$?"
