#!/bin/bash
# usage: run_all.sh [tier]   — runs every claimed check of MANIFEST.json in sequence, prints one line per property
tier=${1:-quick}
cd /verif
for id in ${RUN_ALL_IDS:-$(jq -r ".checks[] | select(.thorough_cmd != null or \"$tier\" == \"quick\") | .property_id" MANIFEST.json)}; do
  t0=$(date +%s)
  if [ "$tier" = thorough ]; then
    out=$(timeout ${RUN_ALL_TIMEOUT:-3000} ./bin/symgo check $id --tier $tier 2>/dev/null)
  else
    out=$(SYMGO_MAX_WALL_S=${SYMGO_MAX_WALL_S:-280} timeout ${RUN_ALL_TIMEOUT:-900} ./bin/symgo check $id --tier $tier 2>/dev/null)
  fi
  rc=$?
  t1=$(date +%s)
  echo "RUNALL $id tier=$tier exit=$rc wall=$((t1-t0))s $(echo "$out" | grep -E '^(OK|VIOLATION|INCONCLUSIVE)' | head -2 | tr '\n' ' ' | cut -c1-160) known=$(echo "$out" | grep -c '^KNOWN-FINDING')"
done
