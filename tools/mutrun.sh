#!/bin/bash
# usage: mutrun.sh <seeded-dir-name e.g. C15-m1> <check-id> [tier]
# Runs a check against a scratch worktree of /repo HEAD with the seeded change applied (does not touch /repo).
set -u
name=$1; id=$2; tier=${3:-quick}
wt=/tmp/mr/$name-$id; out=/tmp/mr/out/$name-$id
mkdir -p /tmp/mr/out; rm -rf "$wt" "$out"; mkdir -p "$out"
git -C /repo worktree prune
git -C /repo worktree add -q --detach "$wt" HEAD || exit 3
trap 'git -C /repo worktree remove --force "$wt" 2>/dev/null' EXIT
if ! git -C "$wt" apply /verif/seeded/$name/patch.diff; then echo "MUTRESULT $name $id patch-does-not-apply"; exit 3; fi
SYMGO_REPO=$wt SYMGO_OUT=$out timeout 3600 /verif/bin/symgo check "$id" --tier "$tier" > "$out/log.txt" 2>&1
rc=$?
echo "MUTRESULT $name $id exit=$rc $(grep -c '^VIOLATION' $out/log.txt) violations; $(grep -m2 -E '^  [A-Za-z0-9_]+: (assert|panic|deadlock)' $out/log.txt | tr '\n' '|' | cut -c1-300) $(grep -m1 INCONCLUSIVE $out/log.txt | cut -c1-200)"
