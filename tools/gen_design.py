#!/usr/bin/env python3
"""Regenerates section 0 of DESIGN.md from tools/asbuilt_head.md, the descriptors, known_findings.txt and seeded/RESULTS.tsv."""
import json, glob, os, re, collections
root='/verif'
head=open(f'{root}/tools/asbuilt_head.md').read()
kf=open(f'{root}/known_findings.txt').read().splitlines()
fixed=collections.Counter(); known=collections.defaultdict(list)
for l in kf:
    m=re.match(r'(fixed|known): property=(C\d+)(.*)',l)
    if not m: continue
    if m.group(1)=='fixed': fixed[m.group(2)]+=1
    else:
        f=re.search(r'finding=(\S+)',l); known[m.group(2)].append(f.group(1) if f else '?')
rows=['| id | entries (quick/all) | what is executed and asserted (first sentence of the claim) | quick bounds | fixed | known |','|---|---|---|---|---|---|']
for p in sorted(glob.glob(f'{root}/harness/C*/descriptor.json')):
    d=json.load(open(p)); pid=d['property']
    ent=d['entries']; q=[e for e in ent if not e.get('tiers') or 'quick' in e['tiers']]
    claim=d.get('claim','').split('. ')[0].strip()
    if len(claim)>330: claim=claim[:327]+'...'
    b=d.get('bounds',{}).get('quick','')
    if len(b)>260: b=b[:257]+'...'
    rows.append(f"| {pid} | {len(q)}/{len(ent)} | {claim} | {b} | {fixed.get(pid,0)} | {', '.join(known.get(pid,[])) or '–'} |")
rows.append('| C26 | – | not applicable (0.6) | – | – | – |')
table='\n'.join(rows)
# seeds
res={}
rp=f'{root}/seeded/RESULTS.tsv'
if os.path.exists(rp):
    for l in open(rp):
        f=l.rstrip('\n').split('\t')
        if len(f)>=4: res[f[0]]=f
moot={}
for d in sorted(glob.glob(f'{root}/seeded/*/meta.json')):
    m=json.load(open(d))
    if 'status_after_fixes' in m: moot[os.path.basename(os.path.dirname(d))]=m['status_after_fixes']
srows=['| seed | check | result | first failing label |','|---|---|---|---|']
for name in sorted(os.listdir(f'{root}/seeded')):
    if not os.path.isdir(f'{root}/seeded/{name}'): continue
    r=res.get(name)
    if name in moot: srows.append(f'| {name} | – | moot after a repair | – |'); continue
    if not r: srows.append(f'| {name} | ? | not run | |'); continue
    verdict={'1':'caught','0':'MISSED','2':'inconclusive'}.get(r[2],r[2])
    srows.append(f'| {name} | {r[1]} | {verdict} | {r[4] if len(r)>4 else ""} |')
seeds='\n'.join(srows)
sec=head.replace('@@TABLE@@',table).replace('@@SEEDS@@',seeds)
doc=open(f'{root}/DESIGN.md').read()
start='<!-- AS-BUILT BEGIN -->'; end='<!-- AS-BUILT END -->'
block=f'{start}\n{sec}\n{end}\n'
if start in doc:
    doc=doc[:doc.index(start)]+block+doc[doc.index(end)+len(end)+1:]
else:
    i=doc.index('## 1. Why this reaches what the tests cannot')
    doc=doc[:i]+block+'\n'+doc[i:]
open(f'{root}/DESIGN.md','w').write(doc)
print('DESIGN.md section 0 regenerated:',len(rows)-2,'checks,',len(srows)-2,'seeds')
