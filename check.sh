#!/bin/bash
# usage: check.sh <property id> <quick|thorough>
# Builds the engine if it is missing or older than its sources (offline), then runs the check against /repo's
# current working tree. Exit code and output are the engine's (0 held, 1 VIOLATION, 2 inconclusive).
set -u
cd /verif
export GOFLAGS=-mod=mod GOPROXY=off GOSUMDB=off GOTOOLCHAIN=local
need=0
[ -x bin/symgo ] || need=1
if [ $need -eq 0 ]; then
  for f in engine/*.go engine/go.mod; do [ "$f" -nt bin/symgo ] && need=1; done
fi
if [ $need -eq 1 ]; then
  mkdir -p bin
  (cd engine && go build -o /verif/bin/symgo .) || { echo "INCONCLUSIVE: engine build failed"; exit 2; }
fi
exec /verif/bin/symgo check "$1" --tier "${2:-quick}"
