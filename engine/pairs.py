import sys, itertools, time
from z3 import *

def load(fn):
    paths=[]; cur=None
    for l in open(fn):
        l=l.strip()
        if l=="PATH":
            cur=[]; paths.append(cur)
        elif l:
            k,obj=l.split(" ",1)
            cur.append((k,obj))
    return paths

def sections(tr):
    """critical sections: list of (lock, mode, acq_idx, rel_idx or None)"""
    out=[]; open_={}
    for i,(k,o) in enumerate(tr):
        if k in ("acqW","acqR"):
            open_.setdefault((o,k[-1]),[]).append(i)
        elif k in ("relW","relR"):
            st=open_.get((o,k[-1]))
            if st:
                a=st.pop(); out.append((o,k[-1],a,i))
    for (o,m),st in open_.items():
        for a in st: out.append((o,m,a,None))
    return out

def query(A,B,kind):
    s=Solver(); s.set("timeout",20000)
    nA,nB=len(A),len(B)
    oA=[Int("a%d"%i) for i in range(nA)]; oB=[Int("b%d"%i) for i in range(nB)]
    cA,cB=Int("cA"),Int("cB")
    s.add(cA>=0,cA<nA,cB>=0,cB<nB)     # next event index of each thread (prefix executed = indices < c)
    for i in range(nA-1): s.add(oA[i]<oA[i+1])
    for j in range(nB-1): s.add(oB[j]<oB[j+1])
    s.add(Distinct(*(oA+oB)))
    secA,secB=sections(A),sections(B)
    # mutual exclusion among executed sections
    for (l1,m1,a1,r1) in secA:
        for (l2,m2,a2,r2) in secB:
            if l1!=l2 or (m1=="R" and m2=="R"): continue
            bothStarted=And(a1<cA, a2<cB)
            d1 = And(r1<cA, oA[r1]<oB[a2]) if r1 is not None else BoolVal(False)
            d2 = And(r2<cB, oB[r2]<oA[a1]) if r2 is not None else BoolVal(False)
            s.add(Implies(bothStarted, Or(d1,d2)))
    def heldBy(sec, c, lock, conflictWith):
        opts=[]
        for (l,m,a,r) in sec:
            if l!=lock: continue
            if conflictWith=="R" and m=="R": continue
            rel = (r>=c) if r is not None else BoolVal(True)
            opts.append(And(a<c, rel))
        return Or(*opts) if opts else BoolVal(False)
    if kind=="deadlock":
        condA=[]; condB=[]
        for i,(k,o) in enumerate(A):
            if k in("acqW","acqR"): condA.append(And(cA==i, heldBy(secB,cB,o,k[-1])))
        for j,(k,o) in enumerate(B):
            if k in("acqW","acqR"): condB.append(And(cB==j, heldBy(secA,cA,o,k[-1])))
        if not condA or not condB: return None
        s.add(Or(*condA),Or(*condB))
    else:
        pairs=[]
        for i,(k1,o1) in enumerate(A):
            if k1 not in("rd","wr"): continue
            for j,(k2,o2) in enumerate(B):
                if k2 not in("rd","wr") or o1!=o2 or (k1=="rd" and k2=="rd"): continue
                pairs.append(And(cA==i,cB==j))
        if not pairs: return None
        s.add(Or(*pairs))
    r=s.check()
    if r==sat:
        m=s.model(); return (m[cA].as_long(), m[cB].as_long())
    return False if r==unsat else "unknown"

names=sys.argv[1:]
tr={n:load("/tmp/probe/ev_%s.txt"%n) for n in names}
for x,y in itertools.combinations(names,2):
    for pa in tr[x]:
        for pb in tr[y]:
            for kind in("deadlock","race"):
                t0=time.time(); r=query(pa,pb,kind); dt=time.time()-t0
                if r and r!="unknown":
                    i,j=r
                    print("%-9s %s || %s : SAT  next events: %s:%s / %s:%s  (%.2fs)"%(kind,x,y,pa[i][0],pa[i][1],pb[j][0],pb[j][1],dt))
                else:
                    print("%-9s %s || %s : %s (%.2fs)"%(kind,x,y,{None:"no candidate events",False:"UNSAT"}.get(r,r),dt))
