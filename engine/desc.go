package main

import (
	"bufio"
	"encoding/json"
	"fmt"
	"os"
	"path/filepath"
	"strings"
)

var repoRoot = repoRootFromEnv()

func repoRootFromEnv() string {
	if r := os.Getenv("SYMGO_REPO"); r != "" {
		return r
	}
	return "/repo"
}

const modPath = "github.com/bio-routing/bio-rd"

// Descriptor: /verif/harness/<id>/descriptor.json
type Descriptor struct {
	Property      string            `json:"property"`
	Dir           string            `json:"dir"`     // repo-relative directory of the package the harness lives in
	Overlay       map[string]string `json:"overlay"` // repo-relative virtual path -> file relative to the harness directory
	Entries       []EntryCfg        `json:"entries"`
	Bounds        map[string]string `json:"bounds"`         // human-readable bounds per tier
	OutsideBounds []string          `json:"outside_bounds"` // what lies outside the claim
	Models        []string          `json:"models"`         // models / stubs in the trusted base
	AllowAborts   []string          `json:"allow_aborts"`   // abort reasons (substring) that are stated exclusions, not inconclusive
	Technique     string            `json:"technique"`
	Stubs         map[string]string `json:"stubs"` // function (ssa name) -> stub kind (fresh-copy | identity | noop)
	dirPath       string
}

func loadDescriptor(verifRoot, id string) (*Descriptor, error) {
	dir := filepath.Join(verifRoot, "harness", id)
	b, err := os.ReadFile(filepath.Join(dir, "descriptor.json"))
	if err != nil {
		return nil, err
	}
	d := &Descriptor{}
	if err := json.Unmarshal(b, d); err != nil {
		return nil, fmt.Errorf("descriptor %s: %v", id, err)
	}
	d.dirPath = dir
	if d.Property == "" {
		d.Property = id
	}
	return d, nil
}

func (d *Descriptor) pkgPath() string {
	if d.Dir == "" || d.Dir == "." {
		return modPath
	}
	return modPath + "/" + d.Dir
}

func inTier(e EntryCfg, tier string) bool {
	if len(e.Tiers) == 0 {
		return true
	}
	for _, t := range e.Tiers {
		if t == tier {
			return true
		}
	}
	return false
}

// KnownFinding: one line of /verif/known_findings.txt
//
//	known: property=C15 finding=C15-1 harness=VC15_Contains6 label=C15.contains6 :: what fails
//	fixed: property=C15 <commit> what failed
type KnownFinding struct {
	Property string
	ID       string
	Harness  string
	Label    string
	Text     string
	Fixed    bool
}

func loadKnownFindings(verifRoot, property string) ([]KnownFinding, error) {
	f, err := os.Open(filepath.Join(verifRoot, "known_findings.txt"))
	if err != nil {
		if os.IsNotExist(err) {
			return nil, nil
		}
		return nil, err
	}
	defer f.Close()
	var out []KnownFinding
	sc := bufio.NewScanner(f)
	sc.Buffer(make([]byte, 1<<20), 1<<20)
	for sc.Scan() {
		line := strings.TrimSpace(sc.Text())
		if line == "" || strings.HasPrefix(line, "#") {
			continue
		}
		k := KnownFinding{}
		switch {
		case strings.HasPrefix(line, "known:"):
			line = strings.TrimSpace(strings.TrimPrefix(line, "known:"))
		case strings.HasPrefix(line, "fixed:"):
			line = strings.TrimSpace(strings.TrimPrefix(line, "fixed:"))
			k.Fixed = true
		default:
			continue
		}
		head, text := line, ""
		if i := strings.Index(line, "::"); i >= 0 {
			head, text = strings.TrimSpace(line[:i]), strings.TrimSpace(line[i+2:])
		}
		k.Text = text
		for _, f := range strings.Fields(head) {
			kv := strings.SplitN(f, "=", 2)
			if len(kv) != 2 {
				if k.Fixed {
					k.Text = strings.TrimSpace(k.Text + " " + f)
				}
				continue
			}
			switch kv[0] {
			case "property":
				k.Property = kv[1]
			case "finding":
				k.ID = kv[1]
			case "harness":
				k.Harness = kv[1]
			case "label":
				k.Label = kv[1]
			}
		}
		if k.Property == property {
			out = append(out, k)
		}
	}
	return out, sc.Err()
}
