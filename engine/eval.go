package main

import "sync/atomic"

// Concrete evaluation of terms under a model (assignment of nd variables; missing variables read as 0).
// Used for KLEE-style model reuse: the branch side the current model takes is feasible without a solver call.

type evalCtx struct {
	m   map[string]uint64
	gen int64
}

var evalGen int64

// evalTerm evaluates t under m. The per-term cache is stamped with a fresh generation number; a term
// belongs to exactly one engine (one goroutine), so the stamps are not shared between threads.
func evalTerm(t *Term, m map[string]uint64) uint64 {
	c := &evalCtx{m: m, gen: atomic.AddInt64(&evalGen, 1)}
	return c.ev(t)
}

func (c *evalCtx) ev(t *Term) uint64 {
	switch t.Op {
	case "const", "bconst":
		return t.Val
	case "var":
		return c.m[t.Name] & maskOr1(t.W)
	}
	if t.evGen == c.gen {
		return t.evVal
	}
	var r uint64
	a := func(i int) uint64 { return c.ev(t.Args[i]) }
	w := t.W
	switch t.Op {
	case "bvadd":
		r = a(0) + a(1)
	case "bvsub":
		r = a(0) - a(1)
	case "bvmul":
		r = a(0) * a(1)
	case "bvand":
		r = a(0) & a(1)
	case "bvor":
		r = a(0) | a(1)
	case "bvxor":
		r = a(0) ^ a(1)
	case "bvnot":
		r = ^a(0)
	case "bvneg":
		r = -a(0)
	case "bvshl":
		x, y := a(0), a(1)
		if y >= uint64(w) {
			r = 0
		} else {
			r = x << y
		}
	case "bvlshr":
		x, y := a(0), a(1)
		if y >= uint64(w) {
			r = 0
		} else {
			r = x >> y
		}
	case "bvashr":
		x, y := sx(a(0), w), a(1)
		if y >= uint64(w) {
			y = uint64(w - 1)
		}
		r = uint64(x >> y)
	case "bvudiv":
		x, y := a(0), a(1)
		if y == 0 {
			r = mask(w)
		} else {
			r = x / y
		}
	case "bvurem":
		x, y := a(0), a(1)
		if y == 0 {
			r = x
		} else {
			r = x % y
		}
	case "bvsdiv":
		x, y := sx(a(0), w), sx(a(1), w)
		switch {
		case y == 0:
			if x >= 0 {
				r = mask(w)
			} else {
				r = 1
			}
		case y == -1:
			r = uint64(-x)
		default:
			r = uint64(x / y)
		}
	case "bvsrem":
		x, y := sx(a(0), w), sx(a(1), w)
		switch {
		case y == 0:
			r = uint64(x)
		case y == -1:
			r = 0
		default:
			r = uint64(x % y)
		}
	case "=":
		r = b2i(a(0) == a(1))
	case "bvult":
		r = b2i(a(0) < a(1))
	case "bvule":
		r = b2i(a(0) <= a(1))
	case "bvugt":
		r = b2i(a(0) > a(1))
	case "bvuge":
		r = b2i(a(0) >= a(1))
	case "bvslt":
		r = b2i(sx(a(0), t.Args[0].W) < sx(a(1), t.Args[0].W))
	case "bvsle":
		r = b2i(sx(a(0), t.Args[0].W) <= sx(a(1), t.Args[0].W))
	case "bvsgt":
		r = b2i(sx(a(0), t.Args[0].W) > sx(a(1), t.Args[0].W))
	case "bvsge":
		r = b2i(sx(a(0), t.Args[0].W) >= sx(a(1), t.Args[0].W))
	case "not":
		r = 1 - a(0)
	case "and":
		r = a(0) & a(1)
	case "or":
		r = a(0) | a(1)
	case "ite":
		if a(0) != 0 {
			r = a(1)
		} else {
			r = a(2)
		}
	case "zext":
		r = a(0)
	case "sext":
		r = uint64(sx(a(0), t.Args[0].W))
	case "extract":
		r = a(0)
	case "extractr":
		lo := t.Val & 0xffff
		r = a(0) >> lo
	case "concat":
		r = a(0)<<uint(t.Args[1].W) | a(1)
	default:
		panic("eval: unknown op " + t.Op)
	}
	r &= maskOr1(w)
	t.evGen, t.evVal = c.gen, r
	return r
}

func maskOr1(w int) uint64 {
	if w == 0 {
		return 1
	}
	return mask(w)
}

func b2i(b bool) uint64 {
	if b {
		return 1
	}
	return 0
}
