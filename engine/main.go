package main

import (
	"crypto/sha1"
	"encoding/json"
	"fmt"
	"go/types"
	"os"
	"path/filepath"
	"runtime/pprof"
	"sort"
	"strconv"
	"strings"
	"sync"
	"time"

	"golang.org/x/tools/go/packages"
	"golang.org/x/tools/go/ssa"
	"golang.org/x/tools/go/ssa/ssautil"
)

func verifRoot() string {
	if r := os.Getenv("VERIF_ROOT"); r != "" {
		return r
	}
	return "/verif"
}

func main() {
	if len(os.Args) < 3 {
		fmt.Fprintln(os.Stderr, "usage: symgo check <ID> [--tier quick|thorough] [--entry fn] | symgo replay <file>")
		os.Exit(2)
	}
	switch os.Args[1] {
	case "check":
		os.Exit(cmdCheck(os.Args[2], os.Args[3:]))
	case "replay":
		os.Exit(cmdReplay(os.Args[2]))
	}
	fmt.Fprintln(os.Stderr, "unknown command", os.Args[1])
	os.Exit(2)
}

type EntryResult struct {
	Cfg        EntryCfg
	Eng        *Engine
	Wall       time.Duration
	Crash      string
	Queries    [4]int // q, sat, unsat, unknown
	SolverTime time.Duration
	SolverErrs int
}

func loadProgram(d *Descriptor, scratch string) (*ssa.Program, *ssa.Package, error) {
	ov, _, err := d.overlayFiles(scratch, false)
	if err != nil {
		return nil, nil, err
	}
	overlay := map[string][]byte{}
	for virt, real := range ov {
		b, err := os.ReadFile(real)
		if err != nil {
			return nil, nil, err
		}
		overlay[virt] = b
	}
	cfg := &packages.Config{Mode: packages.LoadAllSyntax, Dir: repoRoot, Overlay: overlay, Env: goEnv()}
	pat := "./" + d.Dir
	pkgs, err := packages.Load(cfg, pat)
	if err != nil {
		return nil, nil, err
	}
	nerr := 0
	var firstErr string
	packages.Visit(pkgs, nil, func(p *packages.Package) {
		for _, e := range p.Errors {
			if nerr == 0 {
				firstErr = e.Error()
			}
			nerr++
		}
	})
	if nerr > 0 {
		return nil, nil, fmt.Errorf("harness does not load against /repo (%d errors), first: %s", nerr, firstErr)
	}
	prog, spkgs := ssautil.AllPackages(pkgs, ssa.InstantiateGenerics)
	prog.Build()
	if len(spkgs) == 0 || spkgs[0] == nil {
		return nil, nil, fmt.Errorf("no SSA package for %s", pat)
	}
	return prog, spkgs[0], nil
}

func newEngine(prog *ssa.Program, cfg EntryCfg, kf []KnownFinding, stubs map[string]string) *Engine {
	to := cfg.TimeoutS
	if to == 0 {
		to = 20
	}
	e := &Engine{prog: prog, sol: NewSolver(to*1000, solverBin(), "-in"), globals: map[*ssa.Global]int{}, inited: map[*ssa.Package]bool{},
		pureMemo: map[*ssa.Function]int{}, funcs: map[string]bool{}, reach: map[string]bool{}, cfg: cfg, kf: kf, stubs: stubs,
		aborts: map[string]int{}, viol: map[string]*Violation{}, known: map[string]*Violation{}, ndVars: map[string]*Term{}, asserted: map[string]int{}}
	e.allocMax = cfg.AllocMax
	if e.allocMax == 0 {
		e.allocMax = 40
	}
	e.unwind = cfg.Unwind
	if e.unwind == 0 {
		e.unwind = 300
	}
	e.maxSwitch = cfg.MaxSwitch
	if e.maxSwitch == 0 {
		e.maxSwitch = 6
	}
	e.schedAll = cfg.Sched == "all"
	e.preemptLocks = cfg.Preempt == "locks"
	e.noMerge = cfg.NoMerge
	et := types.NewNamed(types.NewTypeName(0, nil, "modelError", nil), types.NewPointer(types.NewStruct(nil, nil)), nil)
	et.AddMethod(types.NewFunc(0, nil, "Error", types.NewSignatureType(types.NewVar(0, nil, "", et), nil, nil, nil, types.NewTuple(types.NewVar(0, nil, "", types.Typ[types.String])), false)))
	e.errType = et
	return e
}

func solverBin() string {
	if b := os.Getenv("SYMGO_SOLVER"); b != "" {
		return b
	}
	return "z3-new"
}

func runEntry(prog *ssa.Program, pkg *ssa.Package, cfg EntryCfg, kf []KnownFinding, stubs map[string]string) (res *EntryResult) {
	res = &EntryResult{Cfg: cfg}
	t0 := time.Now()
	e := newEngine(prog, cfg, kf, stubs)
	res.Eng = e
	defer func() {
		if r := recover(); r != nil {
			res.Crash = fmt.Sprint(r)
			if os.Getenv("SYMGO_DEBUG") != "" {
				panic(r)
			}
		}
		res.Wall = time.Since(t0)
		res.Queries = [4]int{e.sol.Q, e.sol.Sat, e.sol.Unsat, e.sol.Unk}
		res.SolverTime = e.sol.T
		res.SolverErrs = e.sol.Errs
		e.sol.Close()
	}()
	f := pkg.Func(cfg.Fn)
	if f == nil {
		res.Crash = "no such harness function " + cfg.Fn
		return
	}
	st := &State{heap: map[int]*Obj{}, locks: map[string]*MutexModel{}, wgs: map[string]int{}, decided: map[string]bool{}}
	st.gs = []*G{{id: 0, status: gRunnable, name: "main"}}
	st = e.runInit(st, pkg)
	e.instrs = 0
	e.aborts = map[string]int{}
	e.unsupported = 0
	mw := cfg.MaxWallS
	if mw == 0 {
		mw = 900
	}
	if v, _ := strconv.Atoi(os.Getenv("SYMGO_MAX_WALL_S")); v > 0 {
		mw = v
	}
	e.deadline = time.Now().Add(time.Duration(mw) * time.Second)
	e.pushFrame(st, st.gs[0], f, nil, nil, nil)
	e.drive([]*State{st}, nil)
	return
}

type vecRef struct {
	kind  string // witness | violation | known
	entry *EntryResult
	w     *Witness
	v     *Violation
}

func cmdCheck(id string, args []string) int {
	t0 := time.Now()
	tier := os.Getenv("VERIF_TIER")
	only := ""
	for i := 0; i < len(args); i++ {
		switch args[i] {
		case "--tier":
			i++
			tier = args[i]
		case "--entry":
			i++
			only = args[i]
		}
	}
	if tier == "" {
		tier = "quick"
	}
	seed, _ := strconv.Atoi(os.Getenv("VERIF_SEED"))
	root := verifRoot()
	outRoot := root
	if o := os.Getenv("SYMGO_OUT"); o != "" {
		outRoot = o // scratch runs (e.g. against a worktree with a seeded change) keep /verif/evidence and /verif/replays untouched
	}
	evPath := filepath.Join(outRoot, "evidence", id+".json")
	os.Remove(evPath)
	os.RemoveAll(filepath.Join(outRoot, "replays", id)) // replays of earlier runs would be mistaken for this run's
	d, err := loadDescriptor(root, id)
	if err != nil {
		fmt.Println("INCONCLUSIVE:", err)
		return 2
	}
	kf, err := loadKnownFindings(root, id)
	if err != nil {
		fmt.Println("INCONCLUSIVE:", err)
		return 2
	}
	scratch, err := os.MkdirTemp("", "symgo-")
	if err != nil {
		fmt.Println("INCONCLUSIVE:", err)
		return 2
	}
	defer os.RemoveAll(scratch)
	prog, pkg, err := loadProgram(d, scratch)
	if err != nil {
		fmt.Println("INCONCLUSIVE:", err)
		return 2
	}
	loadT := time.Since(t0)
	if pf := os.Getenv("SYMGO_PROF"); pf != "" {
		f, _ := os.Create(pf)
		pprof.StartCPUProfile(f)
		go func() {
			time.Sleep(30 * time.Second)
			pprof.StopCPUProfile()
			f.Close()
			fmt.Fprintln(os.Stderr, "profile written")
		}()
	}
	var entries []EntryCfg
	for _, e := range d.Entries {
		if inTier(e, tier) && (only == "" || e.Fn == only) {
			entries = append(entries, e)
		}
	}
	if len(entries) == 0 {
		fmt.Println("INCONCLUSIVE: no entries for tier", tier)
		return 2
	}
	workers := 16
	if w, _ := strconv.Atoi(os.Getenv("SYMGO_WORKERS")); w > 0 {
		workers = w
	}
	results := make([]*EntryResult, len(entries))
	sem := make(chan struct{}, workers)
	var wg sync.WaitGroup
	for i := range entries {
		wg.Add(1)
		go func(i int) {
			defer wg.Done()
			sem <- struct{}{}
			defer func() { <-sem }()
			results[i] = runEntry(prog, pkg, entries[i], kf, d.Stubs)
			if r := results[i]; r.Eng != nil {
				fmt.Fprintf(os.Stderr, "  .. %s %v done: paths=%d queries=%d wall=%v stopped=%v\n", r.Cfg.Fn, r.Cfg.Params, r.Eng.paths, r.Queries[0], r.Wall.Round(time.Millisecond), r.Eng.stopped)
			}
		}(i)
	}
	wg.Wait()

	// ---------- native validation / confirmation
	var vecs []NativeVector
	var refs []vecRef
	for _, r := range results {
		if r.Cfg.NoNative || r.Eng == nil {
			continue
		}
		for _, w := range r.Eng.witnesses {
			vecs = append(vecs, NativeVector{r.Cfg.Fn, w.ND, r.Cfg.Params})
			refs = append(refs, vecRef{"witness", r, w, nil})
		}
		for _, v := range sortedViol(r.Eng.viol) {
			if v.Status == "sat" {
				vecs = append(vecs, NativeVector{r.Cfg.Fn, v.ND, r.Cfg.Params})
				refs = append(refs, vecRef{"violation", r, nil, v})
			}
		}
		for _, v := range sortedViol(r.Eng.known) {
			vecs = append(vecs, NativeVector{r.Cfg.Fn, v.ND, r.Cfg.Params})
			refs = append(refs, vecRef{"known", r, nil, v})
		}
	}
	// counterexamples of deadlocks never return natively: they go last, one TIMEOUT ends the native run
	{
		var v2 []NativeVector
		var r2 []vecRef
		for pass := 0; pass < 2; pass++ {
			for i := range vecs {
				dl := refs[i].v != nil && refs[i].v.Kind == "deadlock"
				if dl == (pass == 1) {
					v2 = append(v2, vecs[i])
					r2 = append(r2, refs[i])
				}
			}
		}
		vecs, refs = v2, r2
	}
	var inconclusive []string
	validated, mismatches := 0, 0
	confirmed := map[*Violation]bool{}
	nativeNote := ""
	if len(vecs) > 0 && os.Getenv("SYMGO_NO_NATIVE") == "" {
		nres, out, err := runNative(d, vecs)
		if err != nil {
			inconclusive = append(inconclusive, "native validation run failed: "+err.Error())
			nativeNote = tail(out, 400)
		} else {
			for i, nr := range nres {
				ref := refs[i]
				switch ref.kind {
				case "witness":
					ok := nr.Panic == "" && !nr.AssumeFailed && eqU64(nr.Obs, ref.w.Obs) && eqSet(nr.Fails, ref.w.Fails)
					if ok {
						validated++
					} else {
						mismatches++
						inconclusive = append(inconclusive, fmt.Sprintf("encoder validation mismatch in %s: nd=%v engine(obs=%v fails=%v) native(obs=%v fails=%v panic=%q assumeFailed=%v)",
							ref.entry.Cfg.Fn, ref.w.ND, ref.w.Obs, ref.w.Fails, nr.Obs, nr.Fails, nr.Panic, nr.AssumeFailed))
					}
				default:
					if nativeConfirms(ref.v, nr) {
						confirmed[ref.v] = true
						validated++
					}
				}
			}
		}
	}

	// ---------- verdict
	exit := 0
	var violLines, knownLines, notes []string
	nViol := 0
	seenKnown := map[string]bool{}
	for _, r := range results {
		fn := r.Cfg.Fn
		if r.Crash != "" {
			inconclusive = append(inconclusive, fmt.Sprintf("%s: engine stopped: %s", fn, r.Crash))
			continue
		}
		e := r.Eng
		twinHit := false
		for _, v := range sortedViol(e.viol) {
			if r.Cfg.Twin != "" && v.Label == r.Cfg.Twin {
				twinHit = v.Status == "sat"
				continue
			}
			if v.Status != "sat" {
				inconclusive = append(inconclusive, fmt.Sprintf("%s: solver answered unknown for %s %q", fn, v.Kind, v.Label))
				continue
			}
			if !r.Cfg.NoNative && os.Getenv("SYMGO_NO_NATIVE") == "" && !confirmed[v] {
				inconclusive = append(inconclusive, fmt.Sprintf("%s: counterexample for %s %q did not reproduce natively (nd=%v) — encoding or model suspect", fn, v.Kind, v.Label, v.ND))
				continue
			}
			p := writeReplay(outRoot, d, r.Cfg, tier, v)
			violLines = append(violLines, fmt.Sprintf("VIOLATION property=%s replay=%s", id, p))
			notes = append(notes, fmt.Sprintf("  %s: %s %q in %s (nd=%v, %d paths)", fn, v.Kind, v.Label, v.Fn, v.ND, v.Count))
			nViol++
		}
		if r.Cfg.Twin != "" && !twinHit {
			inconclusive = append(inconclusive, fmt.Sprintf("%s: vacuity twin label %q was not reported violated", fn, r.Cfg.Twin))
		}
		for _, l := range r.Cfg.Reach {
			if !e.reach[l] {
				inconclusive = append(inconclusive, fmt.Sprintf("%s: reachability marker %q not reached (vacuous harness)", fn, l))
			}
		}
		for _, v := range sortedViol(e.known) {
			if !r.Cfg.NoNative && os.Getenv("SYMGO_NO_NATIVE") == "" && !confirmed[v] {
				inconclusive = append(inconclusive, fmt.Sprintf("%s: known finding %s no longer reproduces natively (nd=%v)", fn, v.Finding, v.ND))
				continue
			}
			if !seenKnown[v.Finding] {
				seenKnown[v.Finding] = true
				knownLines = append(knownLines, fmt.Sprintf("KNOWN-FINDING: property=%s %s %s", id, v.Finding, findingText(kf, v.Finding)))
			}
		}
		if e.paths == 0 && r.Cfg.Twin == "" && len(e.known) == 0 {
			inconclusive = append(inconclusive, fmt.Sprintf("%s: no path completed", fn))
		}
		if e.unwindHits > 0 {
			inconclusive = append(inconclusive, fmt.Sprintf("%s: unwinding bound %d hit %d times (bound too small)", fn, e.unwind, e.unwindHits))
		}
		if e.stopped {
			inconclusive = append(inconclusive, fmt.Sprintf("%s %v: path or wall-clock budget exhausted", fn, r.Cfg.Params))
		}
		if r.SolverErrs > 0 {
			inconclusive = append(inconclusive, fmt.Sprintf("%s: %d solver errors", fn, r.SolverErrs))
		}
		for why, n := range e.aborts {
			allowed := false
			for _, a := range d.AllowAborts {
				if strings.Contains(why, a) {
					allowed = true
				}
			}
			if strings.HasPrefix(why, "unwind bound") {
				allowed = true // already reported above
			}
			if !allowed {
				inconclusive = append(inconclusive, fmt.Sprintf("%s: %d paths aborted as unsupported: %s", fn, n, why))
			}
		}
	}
	for _, k := range kf {
		if !k.Fixed && !seenKnown[k.ID] {
			applicable := false
			for _, r := range results {
				if k.Harness == "" || globMatch(k.Harness, r.Cfg.Fn) {
					applicable = true
				}
			}
			if applicable {
				notes = append(notes, fmt.Sprintf("  note: listed finding %s was not reproduced in this run", k.ID))
			}
		}
	}
	sort.Strings(inconclusive)
	for _, l := range knownLines {
		fmt.Println(l)
	}
	for _, l := range violLines {
		fmt.Println(l)
	}
	for _, l := range notes {
		fmt.Println(l)
	}
	if nViol > 0 {
		exit = 1
	} else if len(inconclusive) > 0 {
		exit = 2
	}
	for _, l := range inconclusive {
		fmt.Println("INCONCLUSIVE:", l)
	}
	if nativeNote != "" {
		fmt.Println(nativeNote)
	}
	wall := time.Since(t0)
	summarize(results, loadT, wall)
	if exit != 2 {
		if err := writeEvidence(evPath, d, tier, seed, results, kf, validated, mismatches, nViol, knownLines, wall, loadT); err != nil {
			fmt.Println("INCONCLUSIVE: cannot write evidence:", err)
			return 2
		}
	}
	if exit == 0 {
		fmt.Printf("OK property=%s tier=%s: held on everything explored (%d entries, %.1fs)\n", id, tier, len(results), wall.Seconds())
	}
	return exit
}

func findingText(kf []KnownFinding, id string) string {
	for _, k := range kf {
		if k.ID == id {
			return k.Text
		}
	}
	return ""
}

func sortedViol(m map[string]*Violation) []*Violation {
	keys := make([]string, 0, len(m))
	for k := range m {
		keys = append(keys, k)
	}
	sort.Strings(keys)
	out := make([]*Violation, 0, len(m))
	for _, k := range keys {
		out = append(out, m[k])
	}
	return out
}

func eqU64(a, b []uint64) bool {
	if len(a) != len(b) {
		return false
	}
	for i := range a {
		if a[i] != b[i] {
			return false
		}
	}
	return true
}

func eqSet(a, b []string) bool {
	ma, mb := map[string]bool{}, map[string]bool{}
	for _, x := range a {
		ma[x] = true
	}
	for _, x := range b {
		mb[x] = true
	}
	if len(ma) != len(mb) {
		return false
	}
	for x := range ma {
		if !mb[x] {
			return false
		}
	}
	return true
}

// nativeConfirms: does the native run of the counterexample show the predicted failure?
func nativeConfirms(v *Violation, nr NativeResult) bool {
	if nr.AssumeFailed {
		return false
	}
	switch v.Kind {
	case "assert":
		for _, f := range nr.Fails {
			if f == v.Label {
				return true
			}
		}
		return false
	case "panic":
		return nr.Panic != ""
	case "deadlock":
		// natively a deadlock shows as the entry not returning within the replay's per-vector time limit
		return nr.Panic == "TIMEOUT"
	case "alloc":
		// allocation-size conditions are decided by the solver; replaying would try to allocate the memory
		return true
	}
	return false
}

type ReplayFile struct {
	Property string         `json:"property"`
	Entry    string         `json:"entry"`
	Tier     string         `json:"tier"`
	Params   map[string]int `json:"params"`
	Kind     string         `json:"kind"`
	Label    string         `json:"label"`
	Fn       string         `json:"fn"`
	ND       []uint64       `json:"nd"`
	Widths   []int          `json:"widths"`
	Trace    []string       `json:"trace,omitempty"`
	NoNative bool           `json:"no_native"`
}

func writeReplay(root string, d *Descriptor, cfg EntryCfg, tier string, v *Violation) string {
	rf := ReplayFile{d.Property, cfg.Fn, tier, cfg.Params, v.Kind, v.Label, v.Fn, v.ND, v.Widths, v.Trace, cfg.NoNative}
	b, _ := json.MarshalIndent(rf, "", " ")
	h := sha1.Sum(b)
	dir := filepath.Join(root, "replays", d.Property)
	os.MkdirAll(dir, 0755)
	p := filepath.Join(dir, fmt.Sprintf("%x.json", h[:6]))
	os.WriteFile(p, b, 0644)
	return p
}

func cmdReplay(path string) int {
	b, err := os.ReadFile(path)
	if err != nil {
		fmt.Println("cannot read replay file:", err)
		return 2
	}
	var rf ReplayFile
	if err := json.Unmarshal(b, &rf); err != nil {
		fmt.Println("bad replay file:", err)
		return 2
	}
	d, err := loadDescriptor(verifRoot(), rf.Property)
	if err != nil {
		fmt.Println(err)
		return 2
	}
	if rf.NoNative {
		// schedule-dependent harness: re-run the entry symbolically restricted to the recorded input
		fmt.Println("replay of a schedule-dependent harness: re-running the check entry", rf.Entry)
		return cmdCheck(rf.Property, []string{"--tier", rf.Tier, "--entry", rf.Entry})
	}
	res, out, err := runNative(d, []NativeVector{{rf.Entry, rf.ND, rf.Params}})
	if err != nil {
		fmt.Println("native replay failed:", err)
		fmt.Println(tail(out, 2000))
		return 2
	}
	v := &Violation{Kind: rf.Kind, Label: rf.Label}
	fmt.Printf("native run of %s on nd=%v: fails=%v panic=%q assumeFailed=%v\n", rf.Entry, rf.ND, res[0].Fails, res[0].Panic, res[0].AssumeFailed)
	if res[0].Panic != "" {
		fmt.Println(tail(res[0].Stack, 1500))
	}
	if nativeConfirms(v, res[0]) {
		fmt.Printf("REPRODUCED: %s %q\n", rf.Kind, rf.Label)
		return 1
	}
	fmt.Println("not reproduced")
	return 0
}

func summarize(results []*EntryResult, loadT, wall time.Duration) {
	for _, r := range results {
		if r.Eng == nil {
			continue
		}
		e := r.Eng
		fmt.Printf("  [%s] paths=%d instrs=%d forks=%d merges=%d vcs=%d proved=%d queries=%d (sat %d unsat %d unk %d) solver=%v wall=%v funcs=%d aborted=%d bigalloc=%d witnesses=%d\n",
			r.Cfg.Fn, e.paths, e.instrs, e.forks, e.merges, e.obligations, e.proved, r.Queries[0], r.Queries[1], r.Queries[2], r.Queries[3],
			r.SolverTime.Round(time.Millisecond), r.Wall.Round(time.Millisecond), len(e.funcs), e.unsupported, e.bigAlloc, len(e.witnesses))
	}
	fmt.Printf("  load+ssa %v, total %v\n", loadT.Round(time.Millisecond), wall.Round(time.Millisecond))
}
