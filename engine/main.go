package main

import (
	"fmt"
	"go/types"
	"os"
	"time"

	"golang.org/x/tools/go/packages"
	"golang.org/x/tools/go/ssa"
	"golang.org/x/tools/go/ssa/ssautil"
)

func main() {
	pkgPath := os.Args[1]
	src, _ := os.ReadFile(os.Args[2])
	virt := os.Args[3]
	t0 := time.Now()
	cfg := &packages.Config{Mode: packages.LoadAllSyntax, Dir: "/repo", Overlay: map[string][]byte{virt: src},
		Env: append(os.Environ(), "GOTOOLCHAIN=local", "GOFLAGS=-mod=mod", "GOPROXY=off", "GOSUMDB=off")}
	pkgs, err := packages.Load(cfg, pkgPath)
	if err != nil {
		panic(err)
	}
	if packages.PrintErrors(pkgs) > 0 {
		os.Exit(1)
	}
	prog, spkgs := ssautil.AllPackages(pkgs, ssa.InstantiateGenerics)
	prog.Build()
	fmt.Println("load+build", time.Since(t0).Round(time.Millisecond))
	for _, name := range os.Args[4:] {
		f := spkgs[0].Func(name)
		if f == nil {
			fmt.Println("no func", name)
			continue
		}
		e := &Engine{prog: prog, sol: NewSolver("z3", "-in"), globals: map[*ssa.Global]int{}, inited: map[*ssa.Package]bool{},
			pureMemo: map[*ssa.Function]int{}, funcs: map[string]bool{}, reach: map[string]bool{},
			allocMax: envInt("ALLOCMAX", 40), unwind: 300, maxSwitch: 6, schedAll: os.Getenv("SCHED_ALL") != "", noMerge: os.Getenv("NOMERGE") != ""}
		et := types.NewNamed(types.NewTypeName(0, nil, "modelError", nil), types.NewPointer(types.NewStruct(nil, nil)), nil)
		et.AddMethod(types.NewFunc(0, nil, "Error", types.NewSignatureType(types.NewVar(0, nil, "", et), nil, nil, nil, types.NewTuple(types.NewVar(0, nil, "", types.Typ[types.String])), false)))
		e.errType = et
		t1 := time.Now()
		st := &State{heap: map[int]*Obj{}, locks: map[string]*MutexModel{}, wgs: map[string]int{}, decided: map[string]bool{}}
		st.gs = []*G{{id: 0, status: gRunnable, name: "main"}}
		st = e.runInit(st, spkgs[0])
		e.instrs = 0
		e.pushFrame(st, st.gs[0], f, nil, nil, nil)
		e.drive([]*State{st}, nil)
		fmt.Printf("== %s: paths=%d instrs=%d forks=%d merges=%d queries=%d (sat %d unsat %d unk %d) solver=%v wall=%v proved=%d funcs=%d reach=%v unsupported=%d bigalloc=%d approxEq=%d deadlocks=%d\n",
			name, e.paths, e.instrs, e.forks, e.merges, e.sol.Q, e.sol.Sat, e.sol.Unsat, e.sol.Unk, e.sol.T.Round(time.Millisecond), time.Since(t1).Round(time.Millisecond),
			e.proved, len(e.funcs), e.reach, e.unsupported, e.bigAlloc, e.approxEq, e.deadlocks)
		seen := map[string]int{}
		for _, v := range e.violations {
			k := v
			if len(k) > 160 {
				k = k[:160]
			}
			seen[k]++
			if seen[k] <= 2 {
				fmt.Println("   !", v)
			}
		}
		e.sol.in.Close()
		e.sol.cmd.Wait()
	}
}

func envInt(k string, d int) int {
	if v := os.Getenv(k); v != "" {
		n := 0
		fmt.Sscanf(v, "%d", &n)
		return n
	}
	return d
}
