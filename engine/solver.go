package main

import (
	"bufio"
	"fmt"
	"io"
	"os"
	"os/exec"
	"strings"
	"time"
)

type Solver struct {
	stack []*Term
	cmd   *exec.Cmd
	in    io.WriteCloser
	out   *bufio.Reader
	pr    *Printer
	Q     int
	Sat   int
	Unsat int
	Unk   int
	T     time.Duration
}

func NewSolver(bin string, args ...string) *Solver {
	cmd := exec.Command(bin, args...)
	in, _ := cmd.StdinPipe()
	out, _ := cmd.StdoutPipe()
	cmd.Stderr = cmd.Stdout
	if err := cmd.Start(); err != nil {
		panic(err)
	}
	s := &Solver{cmd: cmd, in: in, out: bufio.NewReader(out)}
	s.pr = &Printer{defined: map[int]bool{}, out: &strings.Builder{}}
	io.WriteString(in, "(set-option :print-success false)\n(set-option :global-declarations true)\n")
	return s
}

// Check returns "sat"/"unsat"/"unknown" for conjunction pc ∧ extra (extra optional), incremental:
// the solver's assertion stack mirrors pc (one push level per term).
func (s *Solver) Check(conj []*Term, wantModel []*Term) (string, map[string]string) {
	t0 := time.Now()
	pc := conj
	var extra *Term
	if len(conj) > 0 {
		pc = conj[:len(conj)-1]
		extra = conj[len(conj)-1]
	}
	// common prefix
	k := 0
	for k < len(s.stack) && k < len(pc) && s.stack[k] == pc[k] {
		k++
	}
	var sb strings.Builder
	if k < len(s.stack) {
		fmt.Fprintf(&sb, "(pop %d)\n", len(s.stack)-k)
		s.stack = s.stack[:k]
	}
	var body strings.Builder
	for _, t := range pc[k:] {
		n := s.pr.name(t)
		fmt.Fprintf(&body, "(push 1)\n(assert %s)\n", n)
		s.stack = append(s.stack, t)
	}
	en := ""
	if extra != nil {
		en = s.pr.name(extra)
	}
	sb.WriteString(s.pr.out.String())
	s.pr.out.Reset()
	sb.WriteString(body.String())
	sb.WriteString("(push 1)\n")
	if extra != nil {
		fmt.Fprintf(&sb, "(assert %s)\n", en)
	}
	sb.WriteString("(check-sat)\n")
	io.WriteString(s.in, sb.String())
	if lf := os.Getenv("SMTLOG"); lf != "" {
		f, _ := os.OpenFile(lf, os.O_APPEND|os.O_CREATE|os.O_WRONLY, 0644)
		f.WriteString(sb.String())
		f.WriteString("(pop 1)\n")
		f.Close()
	}
	line, _ := s.out.ReadString('\n')
	res := strings.TrimSpace(line)
	var model map[string]string
	if res == "sat" && len(wantModel) > 0 {
		model = map[string]string{}
		for _, v := range wantModel {
			if !s.pr.defined[v.id] {
				continue
			}
			fmt.Fprintf(s.in, "(get-value (%s))\n", v.Name)
			l, _ := s.out.ReadString('\n')
			model[v.Name] = strings.TrimSpace(l)
		}
	}
	io.WriteString(s.in, "(pop 1)\n")
	s.Q++
	switch res {
	case "sat":
		s.Sat++
	case "unsat":
		s.Unsat++
	default:
		s.Unk++
		fmt.Println("SOLVER SAID:", res)
	}
	s.T += time.Since(t0)
	return res, model
}
