package main

import (
	"bufio"
	"fmt"
	"io"
	"os"
	"os/exec"
	"strconv"
	"strings"
	"time"
)

// Solver drives one incremental SMT solver process (z3 -in by default). Its assertion stack mirrors the
// path condition of the state being explored: one push level per path-condition term.
type Solver struct {
	bin     string
	args    []string
	stack   []*Term
	cmd     *exec.Cmd
	in      io.WriteCloser
	out     *bufio.Reader
	pr      *Printer
	timeout int // ms per query
	Q       int
	Sat     int
	Unsat   int
	Unk     int
	Errs    int
	T       time.Duration
	defs    int
	log     *os.File
}

func NewSolver(timeoutMs int, bin string, args ...string) *Solver {
	s := &Solver{bin: bin, args: args, timeout: timeoutMs}
	if lf := os.Getenv("SMTLOG"); lf != "" {
		s.log, _ = os.OpenFile(lf, os.O_APPEND|os.O_CREATE|os.O_WRONLY, 0644)
	}
	s.start()
	return s
}

func (s *Solver) start() {
	cmd := exec.Command(s.bin, s.args...)
	in, _ := cmd.StdinPipe()
	out, _ := cmd.StdoutPipe()
	cmd.Stderr = cmd.Stdout
	if err := cmd.Start(); err != nil {
		panic(err)
	}
	s.cmd, s.in, s.out = cmd, in, bufio.NewReaderSize(out, 1<<16)
	s.pr = &Printer{defined: map[int]bool{}, out: &strings.Builder{}}
	s.stack = nil
	s.defs = 0
	hdr := "(set-option :print-success false)\n(set-option :global-declarations true)\n"
	if strings.Contains(s.bin, "z3") && s.timeout > 0 {
		hdr += fmt.Sprintf("(set-option :timeout %d)\n", s.timeout)
	}
	s.send(hdr)
}

func (s *Solver) send(t string) {
	io.WriteString(s.in, t)
	if s.log != nil {
		s.log.WriteString(t)
	}
}

func (s *Solver) Close() {
	if s.cmd == nil {
		return
	}
	s.in.Close()
	done := make(chan struct{})
	go func() { s.cmd.Wait(); close(done) }()
	select {
	case <-done:
	case <-time.After(2 * time.Second):
		s.cmd.Process.Kill()
		<-done
	}
	s.cmd = nil
}

func (s *Solver) restart() {
	s.Close()
	s.start()
}

// Check returns "sat"/"unsat"/"unknown" for the conjunction conj[:n-1] (the path condition, kept on the
// incremental stack) ∧ conj[n-1] (asserted in a throw-away frame). With wantModel it returns the values
// of the given variables.
func (s *Solver) Check(conj []*Term, wantModel []*Term) (string, map[string]uint64) {
	t0 := time.Now()
	if s.defs > 60000 {
		s.restart()
	}
	pc := conj
	var extra *Term
	if len(conj) > 0 {
		pc = conj[:len(conj)-1]
		extra = conj[len(conj)-1]
	}
	for _, v := range wantModel {
		s.pr.name(v)
	}
	k := 0
	for k < len(s.stack) && k < len(pc) && s.stack[k] == pc[k] {
		k++
	}
	var sb strings.Builder
	if k < len(s.stack) {
		fmt.Fprintf(&sb, "(pop %d)\n", len(s.stack)-k)
		s.stack = s.stack[:k]
	}
	var body strings.Builder
	for _, t := range pc[k:] {
		n := s.pr.name(t)
		fmt.Fprintf(&body, "(push 1)\n(assert %s)\n", n)
		s.stack = append(s.stack, t)
	}
	en := ""
	if extra != nil {
		en = s.pr.name(extra)
	}
	defs := s.pr.out.String()
	s.defs += strings.Count(defs, "\n")
	sb.WriteString(defs)
	s.pr.out.Reset()
	sb.WriteString(body.String())
	sb.WriteString("(push 1)\n")
	if extra != nil {
		fmt.Fprintf(&sb, "(assert %s)\n", en)
	}
	sb.WriteString("(check-sat)\n")
	s.send(sb.String())
	gen := s.cmd
	res := s.readAnswer()
	var model map[string]uint64
	if res == "sat" && len(wantModel) > 0 {
		model = map[string]uint64{}
		var names []string
		for _, v := range wantModel {
			if v.IsConst() {
				continue
			}
			names = append(names, s.pr.name(v))
		}
		if len(names) > 0 {
			s.send("(get-value (" + strings.Join(names, " ") + "))\n")
			txt := s.readSexp()
			parseModel(txt, model)
		}
	}
	if s.cmd == gen {
		s.send("(pop 1)\n")
	}
	s.Q++
	switch res {
	case "sat":
		s.Sat++
	case "unsat":
		s.Unsat++
	default:
		s.Unk++
		res = "unknown"
	}
	s.T += time.Since(t0)
	return res, model
}

func (s *Solver) readAnswer() string {
	for {
		line, err := s.out.ReadString('\n')
		if err != nil {
			s.Errs++
			s.restart()
			return "unknown"
		}
		l := strings.TrimSpace(line)
		switch {
		case l == "sat" || l == "unsat" || l == "unknown" || l == "timeout":
			return l
		case strings.HasPrefix(l, "(error"):
			s.Errs++
			fmt.Fprintln(os.Stderr, "SOLVER ERROR:", l)
			s.restart()
			return "unknown"
		case l == "":
			continue
		default:
			// unexpected output; treat as inconclusive
			s.Errs++
			fmt.Fprintln(os.Stderr, "SOLVER SAID:", l)
			s.restart()
			return "unknown"
		}
	}
}

// readSexp reads one balanced s-expression (possibly spanning several lines) from the solver.
func (s *Solver) readSexp() string {
	var sb strings.Builder
	depth, started := 0, false
	for {
		line, err := s.out.ReadString('\n')
		if err != nil {
			return sb.String()
		}
		sb.WriteString(line)
		for _, ch := range line {
			if ch == '(' {
				depth++
				started = true
			} else if ch == ')' {
				depth--
			}
		}
		if started && depth <= 0 {
			return sb.String()
		}
		if !started && strings.TrimSpace(line) != "" {
			return sb.String()
		}
	}
}

// parseModel parses "((a #x01) (b true) (c (_ bv5 8)))" into m.
func parseModel(txt string, m map[string]uint64) {
	txt = strings.TrimSpace(txt)
	if strings.HasPrefix(txt, "(error") {
		return
	}
	i := 0
	n := len(txt)
	// skip the outer paren
	for i < n && txt[i] != '(' {
		i++
	}
	i++
	for i < n {
		for i < n && txt[i] != '(' {
			if txt[i] == ')' {
				return
			}
			i++
		}
		if i >= n {
			return
		}
		// find matching close of this pair
		depth, j := 0, i
		for j < n {
			if txt[j] == '(' {
				depth++
			} else if txt[j] == ')' {
				depth--
				if depth == 0 {
					break
				}
			}
			j++
		}
		pair := strings.TrimSpace(txt[i+1 : j])
		k := strings.IndexAny(pair, " \t\n")
		if k > 0 {
			name := pair[:k]
			if v, ok := parseValue("((" + name + " " + strings.TrimSpace(pair[k+1:]) + "))"); ok {
				m[name] = v
			}
		}
		i = j + 1
	}
}

// parseValue parses "((name #x00ff))" / "((name #b1))" / "((name true))" / "((name (_ bv5 8)))".
func parseValue(l string) (uint64, bool) {
	l = strings.TrimSpace(l)
	i := strings.Index(l, " ")
	if i < 0 {
		return 0, false
	}
	v := strings.TrimSpace(strings.TrimSuffix(l[i+1:], "))"))
	switch {
	case v == "true":
		return 1, true
	case v == "false":
		return 0, true
	case strings.HasPrefix(v, "#x"):
		u, err := strconv.ParseUint(v[2:], 16, 64)
		return u, err == nil
	case strings.HasPrefix(v, "#b"):
		u, err := strconv.ParseUint(v[2:], 2, 64)
		return u, err == nil
	case strings.HasPrefix(v, "(_ bv"):
		f := strings.Fields(v[5:])
		u, err := strconv.ParseUint(f[0], 10, 64)
		return u, err == nil
	}
	return 0, false
}
