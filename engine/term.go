package main

import (
	"fmt"
	"strings"
	"sync/atomic"
)

// Term is an SMT term: BV of width W (W>0) or Bool (W==0).
type Term struct {
	Op    string
	W     int
	Args  []*Term
	Val   uint64 // for const
	Name  string // for var
	id    int
	evGen int64 // evaluation cache (eval.go): generation stamp and value
	evVal uint64
}

var termCount int64

func mask(w int) uint64 {
	if w >= 64 {
		return ^uint64(0)
	}
	return (uint64(1) << uint(w)) - 1
}

func mkT(op string, w int, args ...*Term) *Term {
	id := atomic.AddInt64(&termCount, 1)
	return &Term{Op: op, W: w, Args: args, id: int(id)}
}
func C(v uint64, w int) *Term { t := mkT("const", w); t.Val = v & mask(w); return t }
func B(b bool) *Term {
	t := mkT("bconst", 0)
	if b {
		t.Val = 1
	}
	return t
}
func V(name string, w int) *Term { t := mkT("var", w); t.Name = name; return t }
func (t *Term) IsConst() bool    { return t.Op == "const" || t.Op == "bconst" }
func (t *Term) True() bool       { return t.Op == "bconst" && t.Val == 1 }
func (t *Term) False() bool      { return t.Op == "bconst" && t.Val == 0 }

func sx(v uint64, w int) int64 {
	if w >= 64 {
		return int64(v)
	}
	if v&(1<<uint(w-1)) != 0 {
		return int64(v | ^mask(w))
	}
	return int64(v)
}

func Bin(op string, a, b *Term) *Term {
	w := a.W
	if a.Op == "const" && b.Op == "const" {
		x, y := a.Val, b.Val
		switch op {
		case "bvadd":
			return C(x+y, w)
		case "bvsub":
			return C(x-y, w)
		case "bvmul":
			return C(x*y, w)
		case "bvand":
			return C(x&y, w)
		case "bvor":
			return C(x|y, w)
		case "bvxor":
			return C(x^y, w)
		case "bvshl":
			if y >= uint64(w) {
				return C(0, w)
			}
			return C(x<<y, w)
		case "bvlshr":
			if y >= uint64(w) {
				return C(0, w)
			}
			return C(x>>y, w)
		case "bvudiv":
			if y != 0 {
				return C(x/y, w)
			}
		case "bvurem":
			if y != 0 {
				return C(x%y, w)
			}
		}
	}
	// identities
	if op == "bvand" {
		if b.Op == "const" && b.Val == mask(w) {
			return a
		}
		if a.Op == "const" && a.Val == mask(w) {
			return b
		}
		if (b.Op == "const" && b.Val == 0) || (a.Op == "const" && a.Val == 0) {
			return C(0, w)
		}
	}
	if (op == "bvadd" || op == "bvor" || op == "bvxor" || op == "bvsub" || op == "bvshl" || op == "bvlshr") && b.Op == "const" && b.Val == 0 {
		return a
	}
	return mkT(op, w, a, b)
}

func Cmp(op string, a, b *Term) *Term {
	if a.Op == "const" && b.Op == "const" {
		x, y := a.Val, b.Val
		sxv, syv := sx(x, a.W), sx(y, a.W)
		switch op {
		case "=":
			return B(x == y)
		case "bvult":
			return B(x < y)
		case "bvule":
			return B(x <= y)
		case "bvugt":
			return B(x > y)
		case "bvuge":
			return B(x >= y)
		case "bvslt":
			return B(sxv < syv)
		case "bvsle":
			return B(sxv <= syv)
		case "bvsgt":
			return B(sxv > syv)
		case "bvsge":
			return B(sxv >= syv)
		}
	}
	if op == "=" && a == b {
		return B(true)
	}
	return mkT(op, 0, a, b)
}

func Eq(a, b *Term) *Term {
	if a.W == 0 {
		if a.IsConst() && b.IsConst() {
			return B(a.Val == b.Val)
		}
		if a.True() {
			return b
		}
		if b.True() {
			return a
		}
		if a.False() {
			return Not(b)
		}
		if b.False() {
			return Not(a)
		}
		if a == b {
			return B(true)
		}
		return mkT("=", 0, a, b)
	}
	return Cmp("=", a, b)
}

func Not(a *Term) *Term {
	if a.IsConst() {
		return B(a.Val == 0)
	}
	if a.Op == "not" {
		return a.Args[0]
	}
	return mkT("not", 0, a)
}
func And(a, b *Term) *Term {
	if a.False() || b.False() {
		return B(false)
	}
	if a.True() {
		return b
	}
	if b.True() {
		return a
	}
	return mkT("and", 0, a, b)
}
func Or(a, b *Term) *Term {
	if a.True() || b.True() {
		return B(true)
	}
	if a.False() {
		return b
	}
	if b.False() {
		return a
	}
	return mkT("or", 0, a, b)
}
func Ite(c, a, b *Term) *Term {
	if c.True() {
		return a
	}
	if c.False() {
		return b
	}
	if a == b {
		return a
	}
	if a.IsConst() && b.IsConst() && a.Val == b.Val {
		return a
	}
	return mkT("ite", a.W, c, a, b)
}
func Zext(a *Term, w int) *Term {
	if w == a.W {
		return a
	}
	if a.Op == "const" {
		return C(a.Val, w)
	}
	t := mkT("zext", w, a)
	return t
}
func Sext(a *Term, w int) *Term {
	if w == a.W {
		return a
	}
	if a.Op == "const" {
		return C(uint64(sx(a.Val, a.W)), w)
	}
	return mkT("sext", w, a)
}
func Extract(a *Term, w int) *Term { // low w bits
	if w == a.W {
		return a
	}
	if a.Op == "const" {
		return C(a.Val, w)
	}
	if a.Op == "zext" && a.Args[0].W >= w {
		return Extract(a.Args[0], w)
	}
	return mkT("extract", w, a)
}
func BvNot(a *Term) *Term {
	if a.Op == "const" {
		return C(^a.Val, a.W)
	}
	return mkT("bvnot", a.W, a)
}
func BvNeg(a *Term) *Term {
	if a.Op == "const" {
		return C(-a.Val, a.W)
	}
	return mkT("bvneg", a.W, a)
}

// ---- SMT printing: every term gets a define-fun at level 0
type Printer struct {
	defined map[int]bool
	out     *strings.Builder
}

func sortOf(w int) string {
	if w == 0 {
		return "Bool"
	}
	return fmt.Sprintf("(_ BitVec %d)", w)
}

func (p *Printer) name(t *Term) string {
	switch t.Op {
	case "const":
		return fmt.Sprintf("(_ bv%d %d)", t.Val, t.W)
	case "bconst":
		if t.Val == 1 {
			return "true"
		}
		return "false"
	case "var":
		if !p.defined[t.id] {
			p.defined[t.id] = true
			fmt.Fprintf(p.out, "(declare-const %s %s)\n", t.Name, sortOf(t.W))
		}
		return t.Name
	}
	n := fmt.Sprintf("t%d", t.id)
	if p.defined[t.id] {
		return n
	}
	args := make([]string, len(t.Args))
	for i, a := range t.Args {
		args[i] = p.name(a)
	}
	var body string
	switch t.Op {
	case "zext":
		body = fmt.Sprintf("((_ zero_extend %d) %s)", t.W-t.Args[0].W, args[0])
	case "sext":
		body = fmt.Sprintf("((_ sign_extend %d) %s)", t.W-t.Args[0].W, args[0])
	case "extract":
		body = fmt.Sprintf("((_ extract %d 0) %s)", t.W-1, args[0])
	case "extractr":
		body = fmt.Sprintf("((_ extract %d %d) %s)", t.Val>>16, t.Val&0xffff, args[0])
	default:
		body = "(" + t.Op + " " + strings.Join(args, " ") + ")"
	}
	p.defined[t.id] = true
	fmt.Fprintf(p.out, "(define-fun %s () %s %s)\n", n, sortOf(t.W), body)
	return n
}

func Concat(hi, lo *Term) *Term {
	if hi.Op == "const" && lo.Op == "const" {
		return C(hi.Val<<uint(lo.W)|lo.Val, hi.W+lo.W)
	}
	return mkT("concat", hi.W+lo.W, hi, lo)
}

// ExtractRange returns bits [hi:lo]
func ExtractRange(a *Term, hi, lo int) *Term {
	w := hi - lo + 1
	if a.Op == "const" {
		return C(a.Val>>uint(lo), w)
	}
	t := mkT("extractr", w, a)
	t.Val = uint64(hi)<<16 | uint64(lo)
	return t
}
