package main

import (
	"fmt"
	"go/token"
	"go/types"

	"golang.org/x/tools/go/ssa"
)

func lockKey(p Ptr) string { return fmt.Sprint(p.obj, p.path) }

// canProceed reports whether a blocked goroutine's blocking instruction could now complete.
func (e *Engine) canProceed(st *State, g *G) bool {
	switch g.wait {
	case wNone:
		return false
	case wLock:
		m := st.locks[lockKeyS(g)]
		return m == nil || (m.owner == 0 && m.readers == 0)
	case wRLock:
		m := st.locks[lockKeyS(g)]
		return m == nil || (m.owner == 0 && !e.writerWaiting(st, lockKeyS(g)))
	case wWG:
		return st.wgs[lockKeyS(g)] <= 0
	case wRecv:
		cm := st.heap[g.waitOn[0]].v.(*ChanModel)
		return len(cm.buf) > 0 || cm.closed || e.parkedSender(st, g.waitOn[0]) != nil
	case wSend:
		cm := st.heap[g.waitOn[0]].v.(*ChanModel)
		return cm.closed || len(cm.buf) < cm.cap || e.parkedReceiver(st, g.waitOn[0], g) != nil
	case wSelect:
		fr := g.top()
		sel := fr.block.Instrs[fr.idx].(*ssa.Select)
		for _, s := range sel.States {
			p := e.get(st, fr, s.Chan).(Ptr)
			if p.obj == 0 {
				continue
			}
			cm := st.heap[p.obj].v.(*ChanModel)
			if s.Dir == types.RecvOnly {
				if len(cm.buf) > 0 || cm.closed || e.parkedSender(st, p.obj) != nil {
					return true
				}
			} else {
				if cm.closed || len(cm.buf) < cm.cap || e.parkedReceiver(st, p.obj, g) != nil {
					return true
				}
			}
		}
		return false
	}
	return false
}

func lockKeyS(g *G) string { return g.name2 }

// writerWaiting: some goroutine is blocked in Lock() on the RWMutex with this key
func (e *Engine) writerWaiting(st *State, key string) bool {
	for _, g := range st.gs {
		if g.status == gBlocked && g.wait == wLock && g.name2 == key {
			return true
		}
	}
	return false
}

func (e *Engine) parkedSender(st *State, ch int) *G {
	for _, g := range st.gs {
		if g.status == gBlocked && g.wait == wSend && g.waitOn[0] == ch {
			return g
		}
	}
	return nil
}

func (e *Engine) parkedReceiver(st *State, ch int, self *G) *G {
	for _, g := range st.gs {
		if g == self || g.status != gBlocked {
			continue
		}
		if g.wait == wRecv && g.waitOn[0] == ch {
			return g
		}
		if g.wait == wSelect {
			for _, c := range g.waitOn {
				if c == ch {
					return g
				}
			}
		}
	}
	return nil
}

func (e *Engine) block(st *State, g *G, w waitKind, on []int, key string) {
	g.status = gBlocked
	g.wait = w
	g.waitOn = on
	g.name2 = key
}

func (e *Engine) othersCanRun(st *State, self *G) bool {
	if st.settle && self.id != 0 {
		// fine: others may still run
	}
	for _, g := range st.gs {
		if g == self {
			continue
		}
		if g.id == 0 && st.settle {
			continue
		}
		if g.status == gRunnable || (g.status == gBlocked && e.canProceed(st, g)) {
			return true
		}
	}
	return false
}

// schedule picks the next goroutine to run. Called when the current one is not runnable.
func (e *Engine) schedule(st *State) []*State {
	var cands []int
	for i, g := range st.gs {
		if g.status == gRunnable {
			cands = append(cands, i)
		} else if g.status == gBlocked && e.canProceed(st, g) {
			cands = append(cands, i)
		}
	}
	main := st.gs[0]
	if st.settle {
		// main waits for quiescence: only others may run
		var others []int
		for _, i := range cands {
			if i != 0 {
				others = append(others, i)
			}
		}
		if len(others) == 0 {
			st.settle = false
			main.status = gRunnable
			main.wait = wNone
			st.cur = 0
			return []*State{st}
		}
		cands = others
	}
	if len(cands) == 0 {
		if main.status == gDone {
			return nil
		}
		// deadlock: main can never continue
		e.deadlocks++
		desc := ""
		for _, g := range st.gs {
			if g.status == gBlocked {
				where := ""
				if len(g.frames) > 0 {
					where = g.top().fn.String()
				}
				desc += fmt.Sprintf(" g%d(wait=%d in %s)", g.id, g.wait, where)
			}
		}
		e.vc(st, "deadlock", "DEADLOCK: all goroutines blocked:"+desc, B(true))
		return nil
	}
	pick := func(s *State, i int) *State {
		g := s.gs[i]
		if g.status == gBlocked {
			g.status = gRunnable // retry blocking instruction
			g.wait = wNone
		}
		if s.cur != i {
			s.switches++
		}
		s.cur = i
		return s
	}
	if !e.schedAll || len(cands) == 1 || st.switches >= e.maxSwitch {
		// deterministic: prefer non-main goroutines (run others to quiescence first), lowest id
		best := cands[0]
		for _, i := range cands {
			if i != 0 {
				best = i
				break
			}
		}
		return []*State{pick(st, best)}
	}
	var out []*State
	for k, i := range cands {
		s := st
		if k < len(cands)-1 {
			s = st.clone()
		}
		out = append(out, pick(s, i))
	}
	e.forks += len(cands) - 1
	return out
}

// ---------------- channels

func (e *Engine) doSend(st *State, g *G, fr *Frame, x *ssa.Send) ([]*State, bool) {
	p := e.get(st, fr, x.Chan).(Ptr)
	v := e.get(st, fr, x.X)
	ok, why := e.trySend(st, g, p, v)
	if why != "" {
		return nil, false
	}
	if ok {
		fr.idx++
		return nil, true
	}
	e.block(st, g, wSend, []int{p.obj}, "")
	g.sendVal = v
	return e.schedule(st), false
}

// trySend: ok=true if sent. why!="" if violation ended path.
func (e *Engine) trySend(st *State, g *G, p Ptr, v Value) (bool, string) {
	if p.obj == 0 {
		return false, "" // blocks forever
	}
	cm := st.heap[p.obj].v.(*ChanModel)
	if cm.closed {
		e.panicVC(st, "send on closed channel", B(true))
		return false, "VC"
	}
	if len(cm.buf) < cm.cap || (cm.cap == 0 && len(cm.buf) == 0 && e.parkedReceiver(st, p.obj, g) != nil) {
		n := *cm
		n.buf = append(append([]Value(nil), cm.buf...), v)
		st.heap[p.obj].v = &n
		st.writes++
		return true, ""
	}
	return false, ""
}

// tryRecv: returns (value, ok-flag-for-commaok, received)
func (e *Engine) tryRecv(st *State, g *G, p Ptr, elem types.Type) (Value, bool, bool) {
	if p.obj == 0 {
		return nil, false, false
	}
	cm := st.heap[p.obj].v.(*ChanModel)
	if len(cm.buf) > 0 {
		n := *cm
		v := cm.buf[0]
		n.buf = append([]Value(nil), cm.buf[1:]...)
		st.heap[p.obj].v = &n
		st.writes++
		return v, true, true
	}
	if s := e.parkedSender(st, p.obj); s != nil {
		v := s.sendVal
		s.status = gRunnable
		s.wait = wNone
		s.top().idx++ // past its Send
		return v, true, true
	}
	if cm.closed {
		return e.zero(elem), false, true
	}
	return nil, false, false
}

func (e *Engine) doRecv(st *State, g *G, fr *Frame, x *ssa.UnOp) ([]*State, bool) {
	p := e.get(st, fr, x.X).(Ptr)
	elem := x.X.Type().Underlying().(*types.Chan).Elem()
	v, okf, got := e.tryRecv(st, g, p, elem)
	if got {
		if x.CommaOk {
			fr.locals[x] = TupleV{v, B(okf)}
		} else {
			fr.locals[x] = v
		}
		fr.idx++
		return nil, true
	}
	on := []int{p.obj}
	e.block(st, g, wRecv, on, "")
	return e.schedule(st), false
}

func (e *Engine) doSelect(st *State, g *G, fr *Frame, x *ssa.Select) ([]*State, bool) {
	// collect ready cases
	var ready []int
	var chans []int
	for i, s := range x.States {
		p := e.get(st, fr, s.Chan).(Ptr)
		if p.obj == 0 {
			continue
		}
		chans = append(chans, p.obj)
		cm := st.heap[p.obj].v.(*ChanModel)
		if s.Dir == types.RecvOnly {
			if len(cm.buf) > 0 || cm.closed || e.parkedSender(st, p.obj) != nil {
				ready = append(ready, i)
			}
		} else {
			if cm.closed || len(cm.buf) < cm.cap || (cm.cap == 0 && e.parkedReceiver(st, p.obj, g) != nil) {
				ready = append(ready, i)
			}
		}
	}
	nRecv := 0
	for _, s := range x.States {
		if s.Dir == types.RecvOnly {
			nRecv++
		}
	}
	mk := func(s *State, idx int) *State {
		sg := s.g()
		sfr := sg.top()
		res := make(TupleV, 2+nRecv)
		res[0] = C(uint64(int64(idx)), 64)
		res[1] = B(false)
		k := 2
		for i, cs := range x.States {
			if cs.Dir != types.RecvOnly {
				continue
			}
			elem := cs.Chan.Type().Underlying().(*types.Chan).Elem()
			res[k] = e.zero(elem)
			if i == idx {
				p := e.get(s, sfr, cs.Chan).(Ptr)
				v, okf, _ := e.tryRecv(s, sg, p, elem)
				res[k] = v
				res[1] = B(okf)
			}
			k++
		}
		if idx >= 0 && x.States[idx].Dir == types.SendOnly {
			p := e.get(s, sfr, x.States[idx].Chan).(Ptr)
			e.trySend(s, sg, p, e.get(s, sfr, x.States[idx].Send))
		}
		sfr.locals[x] = res
		sfr.idx++
		return s
	}
	if len(ready) == 0 {
		if !x.Blocking {
			mk(st, -1)
			return nil, true
		}
		e.block(st, g, wSelect, chans, "")
		return e.schedule(st), false
	}
	if len(ready) == 1 || !e.schedAll {
		mk(st, ready[0])
		return nil, true
	}
	var out []*State
	for k, idx := range ready {
		s := st
		if k < len(ready)-1 {
			s = st.clone()
		}
		out = append(out, mk(s, idx))
	}
	e.forks += len(ready) - 1
	return out, false
}

// ---------------- timers

func (e *Engine) newTimerChan(st *State, d int64, period int64) Ptr {
	p := st.alloc(&ChanModel{cap: 1, timer: true})
	st.timers = append(st.timers, timerEnt{ch: p.obj, deadline: st.clock + d, period: period})
	return p
}

func (e *Engine) fireTimers(st *State) {
	for i := range st.timers {
		t := &st.timers[i]
		if t.stopped {
			continue
		}
		for t.deadline <= st.clock {
			cm := st.heap[t.ch].v.(*ChanModel)
			if len(cm.buf) < cm.cap {
				n := *cm
				n.buf = append(append([]Value(nil), cm.buf...), Opaque{"time"})
				st.heap[t.ch].v = &n
			}
			if t.period > 0 {
				t.deadline += t.period
			} else {
				t.stopped = true
				break
			}
		}
	}
}

var _ = token.ADD
