package main

import (
	"fmt"
	"go/types"
	"strings"

	"golang.org/x/tools/go/ssa"
)

// doCall handles Call / Go / Defer. cont=true: caller loop continues on same state.
func (e *Engine) doCall(st *State, g *G, fr *Frame, in ssa.CallInstruction) ([]*State, bool) {
	cc := in.Common()
	args := make([]Value, len(cc.Args))
	for i, a := range cc.Args {
		args[i] = e.get(st, fr, a)
	}
	var callee Value
	if cc.IsInvoke() {
		recvV := e.get(st, fr, cc.Value)
		recv, isI := recvV.(IfaceV)
		if !isI {
			// opaque receiver (e.g. logger): result opaque
			return e.finishCall(st, g, fr, in, Opaque{"invoke on opaque"})
		}
		if recv.t == nil {
			e.panicVC(st, "method call on nil interface ("+cc.Method.Name()+") in "+fr.fn.String(), B(true))
			return nil, false
		}
		if _, isErr := recv.v.(*ErrObj); isErr {
			return e.finishCall(st, g, fr, in, "<error string>")
		}
		if _, isOp := recv.v.(Opaque); isOp {
			return e.finishCall(st, g, fr, in, Opaque{"invoke on opaque"})
		}
		ms := e.prog.MethodSets.MethodSet(recv.t)
		sel := ms.Lookup(cc.Method.Pkg(), cc.Method.Name())
		if sel == nil {
			return e.abort(st, "no method "+cc.Method.Name()+" on "+recv.t.String()), false
		}
		callee = e.prog.MethodValue(sel)
		args = append([]Value{recv.v}, args...)
	} else {
		callee = e.get(st, fr, cc.Value)
	}
	switch in.(type) {
	case *ssa.Defer:
		fr.defers = append(fr.defers, deferred{callee, args})
		fr.idx++
		return nil, true
	case *ssa.Go:
		ng := &G{id: len(st.gs), status: gRunnable}
		st.gs = append(st.gs, ng)
		switch f := callee.(type) {
		case *ssa.Function:
			ng.name = f.String()
			if f.Blocks == nil {
				ng.status = gDone
			} else {
				e.pushFrame(st, ng, f, args, nil, nil)
			}
		case ClosureV:
			ng.name = f.fn.String()
			e.pushFrame(st, ng, f.fn, args, f.free, nil)
		default:
			return e.abort(st, "go of non-function"), false
		}
		fr.idx++
		return nil, true
	}
	var retTo ssa.Value
	if v, ok := in.(ssa.Value); ok {
		retTo = v
	}
	return e.invokeValue(st, g, fr, callee, args, retTo, false)
}

// finishCall stores result and advances.
func (e *Engine) finishCall(st *State, g *G, fr *Frame, in ssa.Instruction, ret Value) ([]*State, bool) {
	if _, isRD := in.(*ssa.RunDefers); isRD {
		return nil, true
	}
	if v, ok := in.(ssa.Value); ok {
		fr.locals[v] = ret
	}
	fr.idx++
	return nil, true
}

// invokeValue calls callee with args from frame fr (current instruction is the call site, or RunDefers if deferred).
func (e *Engine) invokeValue(st *State, g *G, fr *Frame, callee Value, args []Value, retTo ssa.Value, fromDefer bool) ([]*State, bool) {
	in := fr.block.Instrs[fr.idx]
	switch f := callee.(type) {
	case *ssa.Builtin:
		e.curSt, e.pendingEq = st, nil
		snapW := st.writes
		ret, why := e.builtin(st, fr, f, args)
		if e.pendingEq != nil && f.Name() == "delete" {
			_ = snapW
			return e.abort(st, "symbolic key in delete (prototype)"), false
		}
		if why != "" {
			if strings.HasPrefix(why, "VC:") {
				return nil, false
			}
			return e.abort(st, why), false
		}
		return e.finishCall(st, g, fr, in, ret)
	case ClosureV:
		e.pushFrame(st, g, f.fn, args, f.free, retTo)
		return nil, true
	case *ssa.Function:
		// descriptor-declared stubs; by default String() methods of bio-rd types are formatting stubs
		kind, ok := e.stubs[f.String()]
		if !ok && f.Name() == "String" && f.Pkg != nil && strings.HasPrefix(f.Pkg.Pkg.Path(), modPath) && f.Signature.Params().Len() == 0 &&
			f.Signature.Results().Len() == 1 && f.Signature.Results().At(0).Type().String() == "string" {
			kind, ok = "opaque-string", true
		}
		if ok && strings.HasPrefix(kind, "redirect:") {
			// the call is served by a harness function of the same signature (an explicit environment model)
			tgt := e.funcByName(strings.TrimPrefix(kind, "redirect:"))
			if tgt == nil {
				return e.abort(st, "redirect target not found: "+kind), false
			}
			e.pushFrame(st, g, tgt, args, nil, retTo)
			return nil, true
		}
		if ok && kind != "real" {
			switch kind {
			case "fresh-copy":
				// dedup caches: return a pointer to a private copy of the argument (no sharing between equal values)
				return e.finishCall(st, g, fr, in, st.alloc(args[len(args)-1]))
			case "identity":
				return e.finishCall(st, g, fr, in, args[len(args)-1])
			case "noop":
				return e.finishCall(st, g, fr, in, nil)
			case "symhash-err":
				// (hash, error) function replaced by an injective symbolic hash of its arguments
				parts := make([]Value, len(args))
				for i, a := range args {
					parts[i] = e.snapshot(st, a, 8)
				}
				return e.finishCall(st, g, fr, in, TupleV{SymStr{kind: "hash:" + f.String(), parts: parts}, nilErr()})
			case "opaque-string":
				// formatting of (possibly symbolic) values for messages: the text is never inspected
				parts := make([]Value, len(args))
				for i, a := range args {
					parts[i] = e.snapshot(st, a, 6)
				}
				return e.finishCall(st, g, fr, in, SymStr{kind: "String:" + f.String(), parts: parts})
			}
			return e.abort(st, "unknown stub kind "+kind), false
		}
		// intrinsics
		if succ, handled, cont := e.intrinsic(st, g, fr, in, f, args); handled {
			return succ, cont
		}
		// models
		e.curSt, e.pendingEq = st, nil
		if ret, handled, why := e.model(st, g, fr, f, args); handled {
			if e.pendingEq != nil {
				// the model needs an undecided symbolic condition: fork on it and re-execute the call
				c, key := e.pendingEq, e.pendingKey
				e.pendingEq = nil
				t, f := e.forkOn(st, c)
				var out []*State
				if t != nil {
					t.decided[key] = true
					out = append(out, t)
				}
				if f != nil {
					f.decided[key] = false
					out = append(out, f)
				}
				return out, false
			}
			if why == "BLOCK" {
				return e.schedule(st), false
			}
			if why == "NATIVE" {
				return nil, true
			}
			if why != "" {
				if strings.HasPrefix(why, "VC:") {
					return nil, false
				}
				return e.abort(st, why), false
			}
			return e.finishCall(st, g, fr, in, ret)
		}
		if f.Blocks == nil {
			e.unsupported++
			return e.finishCall(st, g, fr, in, Opaque{f.String()})
		}
		// merge candidate: nested exploration
		if !e.noMerge && !fromDefer && e.isPure(f) {
			entryPC := len(st.pc)
			entryW := st.writes
			pre := st.clone()
			nf := e.pushFrame(st, g, f, args, nil, nil)
			nf.barrier = true
			var outs []*State
			e.drive([]*State{st}, &outs)
			if len(outs) == 0 {
				return nil, false
			}
			pure := true
			for _, o := range outs {
				if o.writes != entryW || !scalar(o.g().retval) {
					pure = false
				}
			}
			if len(outs) == 1 || !pure {
				for _, o := range outs {
					ofr := o.g().top()
					if v, ok := in.(ssa.Value); ok {
						ofr.locals[v] = o.g().retval
					}
					ofr.idx++
				}
				if len(outs) == 1 && outs[0] == st {
					return nil, true
				}
				return outs, false
			}
			e.merges++
			var mv Value
			disj := B(false)
			for i := len(outs) - 1; i >= 0; i-- {
				o := outs[i]
				d := B(true)
				for _, c := range o.pc[entryPC:] {
					d = And(d, c)
				}
				disj = Or(disj, d)
				if i == len(outs)-1 {
					mv = o.g().retval
				} else {
					mv = iteVal(d, o.g().retval, mv)
				}
				if len(o.vars) > len(pre.vars) {
					pre.vars = o.vars
				}
			}
			pre.assume(disj)
			if pre.model == nil {
				for _, o := range outs {
					if o.model != nil {
						pre.model = o.model
						break
					}
				}
			}
			pfr := pre.g().top()
			if v, ok := in.(ssa.Value); ok {
				pfr.locals[v] = mv
			}
			pfr.idx++
			return []*State{pre}, false
		}
		e.pushFrame(st, g, f, args, nil, retTo)
		return nil, true
	case Opaque:
		return e.finishCall(st, g, fr, in, Opaque{"call of opaque"})
	case Ptr:
		if f.obj == 0 {
			e.panicVC(st, "call of nil function in "+fr.fn.String(), B(true))
			return nil, false
		}
	}
	return e.abort(st, fmt.Sprintf("call of %T", callee)), false
}

func scalar(v Value) bool {
	switch x := v.(type) {
	case nil:
		return true
	case *Term:
		return true
	case TupleV:
		for _, y := range x {
			if !scalar(y) {
				return false
			}
		}
		return true
	case StructV:
		for _, y := range x {
			if !scalar(y) {
				return false
			}
		}
		return true
	}
	return false
}

func iteVal(c *Term, a, b Value) Value {
	switch x := a.(type) {
	case nil:
		return nil
	case *Term:
		return Ite(c, x, b.(*Term))
	case TupleV:
		r := make(TupleV, len(x))
		for i := range x {
			r[i] = iteVal(c, x[i], b.(TupleV)[i])
		}
		return r
	case StructV:
		r := make(StructV, len(x))
		for i := range x {
			r[i] = iteVal(c, x[i], b.(StructV)[i])
		}
		return r
	}
	panic("iteVal")
}

func rootAlloc(v ssa.Value) bool {
	for {
		switch x := v.(type) {
		case *ssa.Alloc:
			return true
		case *ssa.FieldAddr:
			v = x.X
		case *ssa.IndexAddr:
			v = x.X
		default:
			return false
		}
	}
}

func (e *Engine) isPure(fn *ssa.Function) bool {
	switch e.pureMemo[fn] {
	case 1, 3:
		return true
	case 2:
		return false
	}
	if fn.Blocks == nil {
		e.pureMemo[fn] = 2
		return false
	}
	res := fn.Signature.Results()
	for i := 0; i < res.Len(); i++ {
		if !scalarType(res.At(i).Type()) {
			e.pureMemo[fn] = 2
			return false
		}
	}
	e.pureMemo[fn] = 3
	ok := true
	for _, b := range fn.Blocks {
		for _, in := range b.Instrs {
			switch x := in.(type) {
			case *ssa.Store:
				if !rootAlloc(x.Addr) {
					ok = false
				}
			case *ssa.Call:
				if x.Common().IsInvoke() {
					ok = false
				} else if f, isF := x.Common().Value.(*ssa.Function); isF {
					if !e.isPure(f) {
						ok = false
					}
				} else if bi, isB := x.Common().Value.(*ssa.Builtin); isB {
					if bi.Name() != "len" && bi.Name() != "cap" {
						ok = false
					}
				} else {
					ok = false
				}
			case *ssa.MapUpdate, *ssa.Send, *ssa.Go, *ssa.Defer, *ssa.Select, *ssa.Panic, *ssa.MakeMap, *ssa.MakeChan, *ssa.MakeSlice, *ssa.RunDefers:
				ok = false
			case *ssa.UnOp:
				if x.Op.String() == "<-" {
					ok = false
				}
			}
		}
	}
	if ok {
		e.pureMemo[fn] = 1
	} else {
		e.pureMemo[fn] = 2
	}
	return ok
}

// ---------------- harness intrinsics

func (e *Engine) isPrelude(f *ssa.Function) bool {
	if f.Pkg == nil {
		return false
	}
	pos := e.prog.Fset.Position(f.Pos())
	return strings.HasSuffix(pos.Filename, "zz_verif_prelude.go")
}

func (e *Engine) freshND(st *State, w int) *Term {
	name := fmt.Sprintf("nd%d_%d", len(st.vars), w)
	v := e.ndVars[name]
	if v == nil {
		v = V(name, w)
		e.ndVars[name] = v
	}
	st.vars = append(st.vars, v)
	return v
}

func (e *Engine) intrinsic(st *State, g *G, fr *Frame, in ssa.Instruction, f *ssa.Function, args []Value) (succ []*State, handled bool, cont bool) {
	if !e.isPrelude(f) {
		return nil, false, false
	}
	name := f.Name()
	fin := func(v Value) ([]*State, bool, bool) {
		s, c := e.finishCall(st, g, fr, in, v)
		return s, true, c
	}
	if w, ok := map[string]int{"ndU8": 8, "ndU16": 16, "ndU32": 32, "ndU64": 64, "ndBool": 0}[name]; ok {
		if w == 0 {
			// booleans travel as one byte in the replay vector
			b := e.freshND(st, 8)
			return fin(Not(Cmp("=", ExtractRange(b, 0, 0), C(0, 1))))
		}
		return fin(e.freshND(st, w))
	}
	switch name {
	case "ndBytes":
		n, ok := args[0].(*Term)
		if !ok || !n.IsConst() {
			return e.abort(st, "ndBytes with symbolic length"), true, false
		}
		elems := make(StructV, int(n.Val))
		for i := range elems {
			elems[i] = e.freshND(st, 8)
		}
		p := st.alloc(elems)
		return fin(SliceV{arr: p.obj, n: len(elems), cap: len(elems)})
	case "vChoice":
		n, ok := args[0].(*Term)
		if !ok || !n.IsConst() || n.Val == 0 || n.Val > 255 {
			return e.abort(st, "vChoice with bad bound"), true, false
		}
		b := e.freshND(st, 8)
		st.assume(Cmp("bvult", b, C(n.Val, 8)))
		return fin(Zext(b, 64))
	case "vParam":
		k, _ := args[0].(string)
		v, ok := e.cfg.Params[k]
		if !ok {
			return e.abort(st, "vParam: no parameter "+k), true, false
		}
		return fin(C(uint64(int64(v)), 64))
	case "vAssume":
		c, ok := args[0].(*Term)
		if !ok {
			return e.abort(st, "vAssume on opaque"), true, false
		}
		if !e.feasible(st, c) {
			e.assumeCut++
			return nil, true, false
		}
		st.assume(c)
		return fin(nil)
	case "vAssert":
		c, ok := args[0].(*Term)
		if !ok {
			return e.abort(st, "vAssert on opaque"), true, false
		}
		label, _ := args[1].(string)
		st.asserts = append(st.asserts, assertRec{label, c})
		e.asserted[label]++
		if !e.vc(st, "assert", label, Not(c)) {
			return nil, true, false
		}
		return fin(nil)
	case "vKnown":
		id, _ := args[0].(string)
		c, ok := args[1].(*Term)
		if !ok {
			return e.abort(st, "vKnown on opaque"), true, false
		}
		nr := make(map[string]*Term, len(st.regions)+1)
		for k, v := range st.regions {
			nr[k] = v
		}
		if old, ok := nr[id]; ok {
			c = Or(old, c)
		}
		nr[id] = c
		st.regions = nr
		return fin(nil)
	case "vObserve":
		t, ok := args[0].(*Term)
		if !ok {
			return e.abort(st, "vObserve on opaque"), true, false
		}
		st.obs = append(st.obs, t)
		return fin(nil)
	case "vReach":
		l, _ := args[0].(string)
		e.reach[l] = true
		st.reached = append(st.reached, l)
		return fin(nil)
	case "vSettle":
		// let every other goroutine run until all are blocked/done
		fr.idx++
		st.settle = true
		g.status = gBlocked
		g.wait = wNone
		return e.schedule(st), true, false
	case "vAdvance":
		d, ok := args[0].(*Term)
		if !ok || !d.IsConst() {
			return e.abort(st, "vAdvance with symbolic duration"), true, false
		}
		st.clock += int64(d.Val)
		e.fireTimers(st)
		return fin(nil)
	case "vNow":
		return fin(C(uint64(st.clock), 64))
	case "vShared":
		st.shared = st.next
		st.events = nil
		return fin(nil)
	case "vChanClosed":
		p := args[0].(Ptr)
		return fin(B(st.heap[p.obj].v.(*ChanModel).closed))
	case "vImplies", "vAnd", "vOr", "vIff":
		a, ok1 := args[0].(*Term)
		b, ok2 := args[1].(*Term)
		if !ok1 || !ok2 {
			return e.abort(st, name+" on opaque"), true, false
		}
		switch name {
		case "vImplies":
			return fin(Or(Not(a), b))
		case "vAnd":
			return fin(And(a, b))
		case "vOr":
			return fin(Or(a, b))
		}
		return fin(Eq(a, b))
	case "vNot":
		a, ok := args[0].(*Term)
		if !ok {
			return e.abort(st, name+" on opaque"), true, false
		}
		return fin(Not(a))
	case "vIte64":
		c, ok0 := args[0].(*Term)
		a, ok1 := args[1].(*Term)
		b, ok2 := args[2].(*Term)
		if !ok0 || !ok1 || !ok2 {
			return e.abort(st, name+" on opaque"), true, false
		}
		return fin(Ite(c, a, b))
	case "vSymbolic":
		return fin(B(true))
	case "vTrace":
		l, _ := args[0].(string)
		st.trace = append(st.trace, l)
		return fin(nil)
	}
	return e.abort(st, "unknown prelude intrinsic "+name), true, false
}

// ---------------- builtins

func (e *Engine) builtin(st *State, fr *Frame, f *ssa.Builtin, args []Value) (Value, string) {
	switch f.Name() {
	case "ssa:wrapnilchk":
		if p, ok := args[0].(Ptr); ok && p.obj == 0 {
			e.panicVC(st, "nil receiver in wrapper method", B(true))
			return nil, "VC:"
		}
		return args[0], ""
	case "len":
		switch x := args[0].(type) {
		case SliceV:
			return C(uint64(x.n), 64), ""
		case string:
			return C(uint64(len(x)), 64), ""
		case Ptr:
			if x.obj == 0 {
				return C(0, 64), ""
			}
			switch m := st.heap[x.obj].v.(type) {
			case *MapModel:
				return C(uint64(len(m.keys)), 64), ""
			case *ChanModel:
				return C(uint64(len(m.buf)), 64), ""
			}
		}
		return nil, "len of ?"
	case "cap":
		if x, ok := args[0].(SliceV); ok {
			return C(uint64(x.cap), 64), ""
		}
		return nil, "cap of ?"
	case "append":
		a := args[0].(SliceV)
		b, ok := args[1].(SliceV)
		if !ok {
			return nil, "append string"
		}
		var src StructV
		if b.n > 0 {
			src = append(StructV(nil), st.arrOf(b)[b.off:b.off+b.n]...)
		}
		if a.n+b.n <= a.cap && !a.isNil {
			// in place
			arr := append(StructV(nil), st.arrOf(a)...)
			copy(arr[a.off+a.n:], src)
			st.setArr(a, arr)
			st.writes++
			return SliceV{arr: a.arr, off: a.off, n: a.n + b.n, cap: a.cap, apath: a.apath}, ""
		}
		newCap := a.n + b.n
		if newCap < 2*a.cap {
			newCap = 2 * a.cap
		}
		elems := make(StructV, newCap)
		if a.n > 0 {
			copy(elems, st.arrOf(a)[a.off:a.off+a.n])
		}
		copy(elems[a.n:], src)
		var z Value
		if et, ok := fr.block.Instrs[fr.idx].(*ssa.Call); ok {
			z = e.zero(et.Type().Underlying().(*types.Slice).Elem())
		}
		for i := a.n + b.n; i < newCap; i++ {
			elems[i] = z
		}
		p := st.alloc(elems)
		return SliceV{arr: p.obj, n: a.n + b.n, cap: newCap}, ""
	case "copy":
		d := args[0].(SliceV)
		sr, ok := args[1].(SliceV)
		if !ok {
			return nil, "copy from string"
		}
		n := d.n
		if sr.n < n {
			n = sr.n
		}
		if n > 0 {
			src := append(StructV(nil), st.arrOf(sr)[sr.off:sr.off+n]...)
			dv := append(StructV(nil), st.arrOf(d)...)
			copy(dv[d.off:d.off+n], src)
			st.setArr(d, dv)
			st.writes++
		}
		return C(uint64(n), 64), ""
	case "delete":
		mp := args[0].(Ptr)
		if mp.obj == 0 {
			return nil, ""
		}
		mm := st.heap[mp.obj].v.(*MapModel)
		nm := &MapModel{}
		for i := range mm.keys {
			if !e.concreteEq(mm.keys[i], args[1]) {
				nm.keys = append(nm.keys, mm.keys[i])
				nm.vals = append(nm.vals, mm.vals[i])
			}
		}
		st.heap[mp.obj].v = nm
		st.writes++
		return nil, ""
	case "close":
		p := args[0].(Ptr)
		if p.obj == 0 {
			e.panicVC(st, "close of nil channel in "+fr.fn.String(), B(true))
			return nil, "VC:"
		}
		cm := st.heap[p.obj].v.(*ChanModel)
		if cm.closed {
			e.panicVC(st, "close of closed channel in "+fr.fn.String(), B(true))
			return nil, "VC:"
		}
		n := *cm
		n.closed = true
		st.heap[p.obj].v = &n
		st.writes++
		return nil, ""
	}
	return nil, "builtin " + f.Name()
}

// ---------------- native frames (sort.Slice insertion sort for n<=12)

func (e *Engine) nativeStep(st *State, g *G, fr *Frame) []*State {
	nv := fr.native
	switch nv.kind {
	case "sort":
		for {
			if nv.hasRet {
				nv.hasRet = false
				c, ok := nv.ret.(*Term)
				if !ok {
					return e.abort(st, "sort less returned opaque")
				}
				t, f := e.forkOn(st, c)
				var out []*State
				if t != nil {
					tn := t.g().top().native
					arr := append(StructV(nil), t.arrOf(tn.sl)...)
					a, b := tn.sl.off+tn.j, tn.sl.off+tn.j-1
					arr[a], arr[b] = arr[b], arr[a]
					t.setArr(tn.sl, arr)
					t.writes++
					tn.j--
					out = append(out, t)
				}
				if f != nil {
					fn := f.g().top().native
					fn.i++
					fn.j = fn.i
					out = append(out, f)
				}
				if len(out) == 1 && out[0] == st {
					continue
				}
				return out
			}
			if nv.i >= nv.sl.n {
				// done: pop native frame, continue caller after its call instr
				g.frames = g.frames[:len(g.frames)-1]
				caller := g.top()
				caller.idx++
				return []*State{st}
			}
			if nv.j <= 0 {
				nv.i++
				nv.j = nv.i
				continue
			}
			args := []Value{C(uint64(nv.sl.off+nv.j), 64), C(uint64(nv.sl.off+nv.j-1), 64)}
			switch f := nv.fn.(type) {
			case ClosureV:
				e.pushFrame(st, g, f.fn, args, f.free, nil)
			case *ssa.Function:
				e.pushFrame(st, g, f, args, nil, nil)
			default:
				return e.abort(st, "sort less not a function")
			}
			return []*State{st}
		}
	}
	return e.abort(st, "native frame kind "+nv.kind)
}

// ---------------- package initialisation

func (e *Engine) runInit(st *State, p *ssa.Package) *State {
	if e.inited[p] {
		return st
	}
	e.inited[p] = true
	for _, imp := range p.Pkg.Imports() {
		if strings.HasPrefix(imp.Path(), "github.com/bio-routing/bio-rd") {
			if sp := e.prog.Package(imp); sp != nil {
				st = e.runInit(st, sp)
			}
		}
	}
	if strings.HasSuffix(p.Pkg.Path(), "/api") || strings.Contains(p.Pkg.Path(), "/api/") {
		return st // generated protobuf packages: init not interpretable
	}
	initFn := p.Func("init")
	saved := st.clone()
	e.initMode++
	nUns := e.unsupported
	savedViol := e.viol
	e.viol = map[string]*Violation{}
	var result *State
	func() {
		defer func() {
			if r := recover(); r != nil {
				e.initNotes = append(e.initNotes, fmt.Sprint("init of ", p.Pkg.Path(), " skipped: ", r))
			}
		}()
		g := st.gs[0]
		savedFrames := g.frames
		g.frames = nil
		g.status = gRunnable
		e.pushFrame(st, g, initFn, nil, nil, nil)
		top := g.top()
		top.barrier = true
		var outs []*State
		e.drive([]*State{st}, &outs)
		if len(outs) == 1 {
			outs[0].gs[0].frames = savedFrames
			result = outs[0]
		}
	}()
	e.initMode--
	if result == nil {
		e.initNotes = append(e.initNotes, fmt.Sprintf("init of %s did not complete (%d problems)", p.Pkg.Path(), len(e.viol)))
		e.viol = savedViol
		e.unsupported = nUns
		return saved
	}
	e.viol = savedViol
	return result
}

func scalarType(t types.Type) bool {
	if w, _ := width(t); w >= 0 {
		return true
	}
	switch u := t.Underlying().(type) {
	case *types.Struct:
		for i := 0; i < u.NumFields(); i++ {
			if !scalarType(u.Field(i).Type()) {
				return false
			}
		}
		return true
	case *types.Array:
		return scalarType(u.Elem())
	}
	return false
}

// snapshot returns a pointer-free deep copy of v (pointers are followed up to depth levels), used as the
// ingredient of symbolic strings.
func (e *Engine) snapshot(st *State, v Value, depth int) Value {
	switch x := v.(type) {
	case Ptr:
		if x.obj == 0 || depth == 0 {
			return "<nil>"
		}
		o, ok := st.heap[x.obj]
		if !ok {
			return "<dangling>"
		}
		switch o.v.(type) {
		case *MapModel, *ChanModel, *MapIter:
			return fmt.Sprintf("<obj%d>", x.obj)
		}
		return e.snapshot(st, st.load(x), depth-1)
	case StructV:
		out := make(StructV, len(x))
		for i := range x {
			out[i] = e.snapshot(st, x[i], depth)
		}
		return out
	case SliceV:
		if x.n == 0 {
			return StructV{}
		}
		arr := st.arrOf(x)[x.off : x.off+x.n]
		out := make(StructV, len(arr))
		for i := range arr {
			out[i] = e.snapshot(st, arr[i], depth)
		}
		return out
	case IfaceV:
		if x.t == nil {
			return "<nil>"
		}
		return e.snapshot(st, x.v, depth)
	case TupleV:
		out := make(StructV, len(x))
		for i := range x {
			out[i] = e.snapshot(st, x[i], depth)
		}
		return out
	case SymStr:
		return x
	}
	return v
}


// funcByName finds a package-level function by its full name ("pkgpath.Name").
func (e *Engine) funcByName(full string) *ssa.Function {
	i := strings.LastIndex(full, ".")
	if i < 0 {
		return nil
	}
	for _, p := range e.prog.AllPackages() {
		if p.Pkg.Path() == full[:i] {
			return p.Func(full[i+1:])
		}
	}
	return nil
}
