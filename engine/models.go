package main

import (
	"crypto/sha1"
	"fmt"
	"go/types"
	"strings"

	"golang.org/x/tools/go/ssa"
)

func nilErr() Value { return IfaceV{} }

func (e *Engine) ioErr(st *State, name string) Value {
	iop := e.prog.ImportedPackage("io")
	g := iop.Members[name].(*ssa.Global)
	p := e.globalPtr(st, g)
	return st.heap[p.obj].v
}

func (e *Engine) errIface() *types.Interface {
	return types.Universe.Lookup("error").Type().Underlying().(*types.Interface)
}

// model: stdlib/third-party models. why: "" ok, "BLOCK" goroutine blocked (retry later), "NATIVE" frame pushed, "VC:" path ended, else abort reason.
func (e *Engine) model(st *State, g *G, fr *Frame, f *ssa.Function, args []Value) (Value, bool, string) {
	if f.Pkg == nil {
		if f.Blocks != nil {
			return nil, false, ""
		}
		return Opaque{f.String()}, true, ""
	}
	pkg := f.Pkg.Pkg.Path()
	name := f.Name()
	full := f.String()
	if name == "init" && f.Synthetic != "" {
		return nil, true, ""
	}
	switch {
	case pkg == "sync":
		return e.syncModel(st, g, full, args)
	case pkg == "sync/atomic":
		p, ok := args[0].(Ptr)
		if !ok || p.obj == 0 {
			return nil, true, "atomic on nil"
		}
		cur := st.load(p)
		switch {
		case strings.HasPrefix(name, "Add"):
			nv := Bin("bvadd", cur.(*Term), args[1].(*Term))
			st.store(p, nv)
			st.writes++
			return nv, true, ""
		case strings.HasPrefix(name, "Load"):
			return cur, true, ""
		case strings.HasPrefix(name, "Store"):
			st.store(p, args[1])
			st.writes++
			return nil, true, ""
		}
		// atomic.Bool etc: methods on struct types
		switch full {
		case "(*sync/atomic.Bool).Load":
			return Not(Cmp("=", cur.(StructV)[1].(*Term), C(0, 32))), true, ""
		case "(*sync/atomic.Bool).Store":
			sv := append(StructV(nil), cur.(StructV)...)
			sv[1] = Ite(args[1].(*Term), C(1, 32), C(0, 32))
			st.store(p, sv)
			st.writes++
			return nil, true, ""
		}
		return nil, true, "atomic " + full
	case pkg == "bytes":
		return e.bytesModel(st, f, full, args)
	case pkg == "encoding/binary" && name == "Read":
		return e.binaryRead(st, args)
	case pkg == "encoding/binary" && name == "Write":
		return e.binaryWrite(st, args)
	case pkg == "fmt":
		switch name {
		case "Errorf":
			eo := &ErrObj{msg: "fmt"}
			if fs, ok := args[0].(string); ok && strings.Contains(fs, "%w") {
				if va, ok := args[1].(SliceV); ok && va.n > 0 {
					for _, a := range st.arrOf(va)[va.off : va.off+va.n] {
						if iv, ok := a.(IfaceV); ok && iv.t != nil && types.Implements(iv.t, e.errIface()) {
							eo.wrapped = iv
						}
					}
				}
			}
			return IfaceV{e.errType, eo}, true, ""
		case "Sprintf", "Sprint", "Sprintln":
			parts := make([]Value, len(args))
			for i, a := range args {
				parts[i] = e.snapshot(st, a, 6)
			}
			return SymStr{kind: "fmt." + name, parts: parts}, true, ""
		}
		return Opaque{full}, true, ""
	case full == "(net.IP).String" || full == "(*net.TCPAddr).String" || full == "(*net.IPNet).String":
		// formatting of an address: an injective symbolic string of the (snapshotted) value
		return SymStr{kind: full, parts: []Value{e.snapshot(st, args[0], 6)}}, true, ""
	case pkg == "crypto/sha256" && name == "Sum256":
		// injective uninterpreted function of its (snapshotted) argument
		return SymStr{kind: "sha256", parts: []Value{e.snapshot(st, args[0], 6)}}, true, ""
	case pkg == "strconv" && name == "Itoa":
		if t, ok := args[0].(*Term); ok && t.IsConst() {
			return itoa(int64(t.Val)), true, ""
		}
		return "<itoa>", true, ""
	case pkg == "strings" && name == "Join":
		return "<join>", true, ""
	case pkg == "strings" && strings.HasPrefix(full, "(*strings.Builder)"):
		if name == "String" {
			return "<builder>", true, ""
		}
		if name == "WriteByte" {
			return nilErr(), true, ""
		}
		return TupleV{C(0, 64), nilErr()}, true, ""
	case pkg == "math" && (name == "Min" || name == "Max"):
		a, ok1 := args[0].(FloatV)
		b, ok2 := args[1].(FloatV)
		if !ok1 || !ok2 {
			return Opaque{"math." + name}, true, ""
		}
		lt := Cmp("bvslt", a.t, b.t)
		if name == "Min" {
			return FloatV{Ite(lt, a.t, b.t)}, true, ""
		}
		return FloatV{Ite(lt, b.t, a.t)}, true, ""
	case full == "(net.IP).To4":
		sl := args[0].(SliceV)
		switch sl.n {
		case 4:
			return sl, true, ""
		case 16:
			arr := st.arrOf(sl)[sl.off : sl.off+16]
			is4 := B(true)
			for i := 0; i < 12; i++ {
				t, ok := arr[i].(*Term)
				if !ok {
					return nil, true, "net.IP.To4 on opaque bytes"
				}
				want := uint64(0)
				if i >= 10 {
					want = 0xff
				}
				is4 = And(is4, Cmp("=", t, C(want, 8)))
			}
			if e.decide(st, is4) {
				return SliceV{arr: sl.arr, off: sl.off + 12, n: 4, cap: 4, apath: sl.apath}, true, ""
			}
		}
		return SliceV{isNil: true}, true, ""
	case pkg == "errors" && (name == "As" || name == "Is" || name == "Unwrap"):
		cur, ok := args[0].(IfaceV)
		if !ok {
			return nil, true, "errors." + name + " on opaque error"
		}
		switch name {
		case "Unwrap":
			if eo, isE := cur.v.(*ErrObj); isE && eo.wrapped != nil {
				return eo.wrapped, true, ""
			}
			return IfaceV{}, true, ""
		case "Is":
			tgt, _ := args[1].(IfaceV)
			for cur.t != nil {
				if tgt.t != nil && types.Identical(cur.t, tgt.t) && e.concreteEq(cur.v, tgt.v) {
					return B(true), true, ""
				}
				eo, isE := cur.v.(*ErrObj)
				if !isE || eo.wrapped == nil {
					break
				}
				cur, _ = eo.wrapped.(IfaceV)
			}
			return B(false), true, ""
		}
		tgt, ok := args[1].(IfaceV)
		if !ok || tgt.t == nil {
			return nil, true, "errors.As with bad target"
		}
		pt, isPtr := tgt.t.Underlying().(*types.Pointer)
		tp, isP := tgt.v.(Ptr)
		if !isPtr || !isP || tp.obj == 0 {
			return nil, true, "errors.As target is not a non-nil pointer"
		}
		want := pt.Elem()
		for cur.t != nil {
			match := types.Identical(cur.t, want)
			if !match && types.IsInterface(want) {
				match = types.Implements(cur.t, want.Underlying().(*types.Interface))
			}
			if match {
				if types.IsInterface(want) {
					st.store(tp, cur)
				} else {
					st.store(tp, cur.v)
				}
				st.writes++
				return B(true), true, ""
			}
			eo, isE := cur.v.(*ErrObj)
			if !isE || eo.wrapped == nil {
				break
			}
			cur, _ = eo.wrapped.(IfaceV)
		}
		return B(false), true, ""
	case pkg == "errors" && name == "New":
		return IfaceV{e.errType, &ErrObj{msg: "errors.New"}}, true, ""
	case full == "github.com/bio-routing/bio-rd/net.BytesInAddr":
		x := Zext(args[0].(*Term), 16)
		return Extract(Bin("bvudiv", Bin("bvadd", x, C(7, 16)), C(8, 16)), 8), true, ""
	case pkg == "sort" && name == "Slice":
		sl := args[0].(IfaceV).v.(SliceV)
		if sl.n > 12 {
			return nil, true, "sort.Slice n>12"
		}
		nf := &Frame{fn: fr.fn, native: &Native{kind: "sort", i: 1, j: 1, sl: sl, fn: args[1]}, locals: map[ssa.Value]Value{}, visited: map[*ssa.BasicBlock]int{}}
		g.frames = append(g.frames, nf)
		return nil, true, "NATIVE"
	case pkg == "time":
		return e.timeModel(st, g, fr, f, full, args)
	case strings.HasPrefix(pkg, "github.com/bio-routing/bio-rd/util/log"):
		return Opaque{"log"}, true, ""
	case strings.HasPrefix(pkg, "github.com/sirupsen/logrus"):
		return Opaque{"logrus"}, true, ""
	case pkg == "os" && name == "Hostname":
		return TupleV{"host", nilErr()}, true, ""
	}
	if f.Blocks == nil {
		e.unsupported++
		return Opaque{full}, true, ""
	}
	if !strings.HasPrefix(pkg, "github.com/bio-routing/") && pkg != "github.com/benbjohnson/clock" && pkg != "io" && pkg != "context" {
		if e.initMode > 0 {
			return Opaque{full}, true, ""
		}
		return nil, true, "unmodelled call: " + full
	}
	return nil, false, ""
}

func (e *Engine) syncModel(st *State, g *G, full string, args []Value) (Value, bool, string) {
	p, _ := args[0].(Ptr)
	key := lockKey(p)
	me := g.id + 1
	if e.preemptLocks && e.schedAll && st.switches < e.maxSwitch && (strings.HasSuffix(full, ".Lock") || strings.HasSuffix(full, ".RLock")) {
		// a lock acquisition is a preemption point: every other goroutine that can run may run first
		if g.yielded {
			g.yielded = false
		} else if e.othersCanRun(st, g) {
			g.yielded = true
			return nil, true, "BLOCK" // the goroutine stays runnable; schedule() forks over all candidates
		}
	}
	switch full {
	case "(*sync.Mutex).Lock", "(*sync.RWMutex).Lock":
		m := st.locks[key]
		if m == nil {
			m = &MutexModel{}
			st.locks[key] = m
		}
		if m.owner == me {
			e.vc(st, "deadlock", "DEADLOCK: goroutine locks a mutex it already holds ("+g.top().fn.String()+")", B(true))
			return nil, true, "VC:"
		}
		if m.owner != 0 || m.readers > 0 {
			e.block(st, g, wLock, nil, key)
			return nil, true, "BLOCK"
		}
		m.owner = me
		e.logEv(st, p, "acqW")
		return nil, true, ""
	case "(*sync.Mutex).Unlock", "(*sync.RWMutex).Unlock":
		m := st.locks[key]
		if m == nil || m.owner == 0 {
			e.panicVC(st, "unlock of unlocked mutex", B(true))
			return nil, true, "VC:"
		}
		m.owner = 0
		e.logEv(st, p, "relW")
		return nil, true, ""
	case "(*sync.RWMutex).RLock":
		m := st.locks[key]
		if m == nil {
			m = &MutexModel{}
			st.locks[key] = m
		}
		if m.owner == me {
			e.vc(st, "deadlock", "DEADLOCK: RLock while holding write lock ("+g.top().fn.String()+")", B(true))
			return nil, true, "VC:"
		}
		if m.owner != 0 || e.writerWaiting(st, key) {
			// sync.RWMutex: a pending Lock blocks new readers (a recursive RLock with a writer in between deadlocks)
			e.block(st, g, wRLock, nil, key)
			return nil, true, "BLOCK"
		}
		m.readers++
		e.logEv(st, p, "acqR")
		return nil, true, ""
	case "(*sync.RWMutex).RUnlock":
		m := st.locks[key]
		if m == nil || m.readers == 0 {
			e.panicVC(st, "RUnlock of unlocked RWMutex", B(true))
			return nil, true, "VC:"
		}
		m.readers--
		e.logEv(st, p, "relR")
		return nil, true, ""
	case "(*sync.WaitGroup).Add":
		st.wgs[key] += int(int64(args[1].(*Term).Val))
		return nil, true, ""
	case "(*sync.WaitGroup).Done":
		st.wgs[key]--
		return nil, true, ""
	case "(*sync.WaitGroup).Wait":
		if st.wgs[key] > 0 {
			e.block(st, g, wWG, nil, key)
			return nil, true, "BLOCK"
		}
		return nil, true, ""
	}
	return nil, true, "sync model missing: " + full
}

// bytes.Buffer modelled on its real struct layout {buf []byte; off int; lastRead readOp}
func bufGet(st *State, p Ptr) (SliceV, int) {
	sv := st.load(p).(StructV)
	sl := sv[0].(SliceV)
	off := int(sv[1].(*Term).Val)
	return sl, off
}
func bufSet(st *State, p Ptr, sl SliceV, off int) {
	sv := append(StructV(nil), st.load(p).(StructV)...)
	sv[0] = sl
	sv[1] = C(uint64(off), 64)
	st.store(p, sv)
	st.writes++
}
func bufUnread(st *State, sl SliceV, off int) StructV {
	if sl.n-off <= 0 {
		return nil
	}
	return st.arrOf(sl)[sl.off+off : sl.off+sl.n]
}
func (e *Engine) bufAppend(st *State, p Ptr, data StructV) {
	sl, off := bufGet(st, p)
	nw := append(append(StructV(nil), bufUnread(st, sl, off)...), data...)
	np := st.alloc(nw)
	bufSet(st, p, SliceV{arr: np.obj, n: len(nw), cap: len(nw)}, 0)
}

func (e *Engine) bytesModel(st *State, f *ssa.Function, full string, args []Value) (Value, bool, string) {
	if full == "bytes.NewBuffer" {
		sl := args[0].(SliceV)
		sv := append(StructV(nil), e.zero(f.Signature.Results().At(0).Type().(*types.Pointer).Elem()).(StructV)...)
		sv[0] = sl
		return st.alloc(sv), true, ""
	}
	p, ok := args[0].(Ptr)
	if !ok || p.obj == 0 {
		return nil, true, "bytes.Buffer nil receiver"
	}
	sl, off := bufGet(st, p)
	avail := sl.n - off
	switch full {
	case "(*bytes.Buffer).ReadByte":
		if avail <= 0 {
			return TupleV{C(0, 8), e.ioErr(st, "EOF")}, true, ""
		}
		v := st.arrOf(sl)[sl.off+off]
		bufSet(st, p, sl, off+1)
		return TupleV{v, nilErr()}, true, ""
	case "(*bytes.Buffer).Len":
		return C(uint64(avail), 64), true, ""
	case "(*bytes.Buffer).Bytes":
		if avail <= 0 {
			return SliceV{isNil: sl.isNil}, true, ""
		}
		return SliceV{arr: sl.arr, off: sl.off + off, n: avail, cap: avail}, true, ""
	case "(*bytes.Buffer).Read":
		dst := args[1].(SliceV)
		if avail <= 0 {
			if dst.n == 0 {
				return TupleV{C(0, 64), nilErr()}, true, ""
			}
			return TupleV{C(0, 64), e.ioErr(st, "EOF")}, true, ""
		}
		n := dst.n
		if avail < n {
			n = avail
		}
		if n > 0 {
			src := append(StructV(nil), bufUnread(st, sl, off)[:n]...)
			dv := append(StructV(nil), st.arrOf(dst)...)
			copy(dv[dst.off:dst.off+n], src)
			st.setArr(dst, dv)
		}
		bufSet(st, p, sl, off+n)
		return TupleV{C(uint64(n), 64), nilErr()}, true, ""
	case "(*bytes.Buffer).Next":
		nT, ok := args[1].(*Term)
		if !ok || !nT.IsConst() {
			return nil, true, "bytes.Buffer.Next with symbolic count"
		}
		n := int(int64(nT.Val))
		if n > avail {
			n = avail
		}
		if n < 0 {
			e.panicVC(st, "slice bounds out of range in bytes.Buffer.Next", B(true))
			return nil, true, "VC:"
		}
		if n == 0 {
			return SliceV{arr: sl.arr, off: sl.off + off, n: 0, cap: avail, apath: sl.apath}, true, ""
		}
		bufSet(st, p, sl, off+n)
		return SliceV{arr: sl.arr, off: sl.off + off, n: n, cap: avail, apath: sl.apath}, true, ""
	case "(*bytes.Buffer).WriteByte":
		e.bufAppend(st, p, StructV{args[1]})
		return nilErr(), true, ""
	case "(*bytes.Buffer).Write":
		d := args[1].(SliceV)
		var data StructV
		if d.n > 0 {
			data = append(StructV(nil), st.arrOf(d)[d.off:d.off+d.n]...)
		}
		e.bufAppend(st, p, data)
		return TupleV{C(uint64(d.n), 64), nilErr()}, true, ""
	}
	return nil, true, "bytes model missing: " + full
}

func (e *Engine) binaryWrite(st *State, args []Value) (Value, bool, string) {
	bp := args[0].(IfaceV).v.(Ptr)
	data := args[2].(IfaceV)
	t, ok := data.v.(*Term)
	if !ok {
		return nil, true, "binary.Write of " + data.t.String()
	}
	var bs StructV
	if t.W == 0 {
		return nil, true, "binary.Write bool"
	}
	for hi := t.W - 1; hi >= 7; hi -= 8 {
		bs = append(bs, ExtractRange(t, hi, hi-7))
	}
	e.bufAppend(st, bp, bs)
	return nilErr(), true, ""
}

// binSize returns the encoded size of a fixed-size value of type t (binary.Size), or -1.
func binSize(t types.Type) int {
	switch u := t.Underlying().(type) {
	case *types.Basic:
		w, _ := width(u)
		if w > 0 {
			return w / 8
		}
		if w == 0 {
			return 1
		}
	case *types.Array:
		es := binSize(u.Elem())
		if es < 0 {
			return -1
		}
		return es * int(u.Len())
	case *types.Struct:
		n := 0
		for i := 0; i < u.NumFields(); i++ {
			fs := binSize(u.Field(i).Type())
			if fs < 0 {
				return -1
			}
			n += fs
		}
		return n
	}
	return -1
}

// binDecode builds the value of type t from big-endian bytes src (as encoding/binary.Read does by reflection).
func binDecode(t types.Type, src StructV) (Value, StructV) {
	switch u := t.Underlying().(type) {
	case *types.Basic:
		w, _ := width(u)
		if w == 0 {
			return Not(Cmp("=", src[0].(*Term), C(0, 8))), src[1:]
		}
		n := w / 8
		v := src[0].(*Term)
		for _, bt := range src[1:n] {
			v = Concat(v, bt.(*Term))
		}
		return v, src[n:]
	case *types.Array:
		out := make(StructV, int(u.Len()))
		for i := range out {
			out[i], src = binDecode(u.Elem(), src)
		}
		return out, src
	case *types.Struct:
		out := make(StructV, u.NumFields())
		for i := range out {
			out[i], src = binDecode(u.Field(i).Type(), src)
		}
		return out, src
	}
	panic("binDecode")
}

func (e *Engine) binaryRead(st *State, args []Value) (Value, bool, string) {
	bp := args[0].(IfaceV).v.(Ptr)
	bsl, boff := bufGet(st, bp)
	data := args[2].(IfaceV)
	var size int
	var target Ptr
	var isSlice bool
	var sl SliceV
	var elemT types.Type
	switch dt := data.t.Underlying().(type) {
	case *types.Pointer:
		target = data.v.(Ptr)
		if target.obj == 0 {
			return nil, true, "binary.Read into nil pointer"
		}
		if st2, ok := dt.Elem().Underlying().(*types.Slice); ok {
			isSlice = true
			sl = st.load(target).(SliceV)
			es := binSize(st2.Elem())
			if es != 1 {
				return nil, true, "binary.Read into slice of non-bytes"
			}
			size = sl.n
		} else {
			elemT = dt.Elem()
			size = binSize(elemT)
			if size < 0 {
				return nil, true, "binary.Read ptr to " + dt.Elem().String()
			}
		}
	case *types.Slice:
		isSlice = true
		sl = data.v.(SliceV)
		if binSize(dt.Elem()) != 1 {
			return nil, true, "binary.Read into slice of non-bytes"
		}
		size = sl.n
	default:
		return nil, true, "binary.Read of " + data.t.String()
	}
	avail := bsl.n - boff
	if size == 0 {
		return nilErr(), true, ""
	}
	if avail <= 0 {
		return e.ioErr(st, "EOF"), true, ""
	}
	if avail < size {
		bufSet(st, bp, bsl, bsl.n)
		return e.ioErr(st, "ErrUnexpectedEOF"), true, ""
	}
	src := append(StructV(nil), bufUnread(st, bsl, boff)[:size]...)
	bufSet(st, bp, bsl, boff+size)
	if isSlice {
		dv := append(StructV(nil), st.arrOf(sl)...)
		copy(dv[sl.off:sl.off+size], src)
		st.setArr(sl, dv)
		return nilErr(), true, ""
	}
	nv, _ := binDecode(elemT, src)
	st.store(target, nv)
	st.writes++
	return nilErr(), true, ""
}

func (e *Engine) timeModel(st *State, g *G, fr *Frame, f *ssa.Function, full string, args []Value) (Value, bool, string) {
	dur := func(v Value) int64 {
		if t, ok := v.(*Term); ok && t.IsConst() {
			return int64(t.Val)
		}
		return 1
	}
	mkTimerStruct := func(t types.Type, ch Ptr) Value {
		sv := e.zero(t).(StructV)
		sv = append(StructV(nil), sv...)
		sv[0] = ch
		return st.alloc(sv)
	}
	mkTime := func(ns *Term) Value {
		sv := append(StructV(nil), e.zero(f.Pkg.Type("Time").Type()).(StructV)...)
		sv[1] = ns
		return sv
	}
	tns := func(v Value) *Term { return v.(StructV)[1].(*Term) }
	switch full {
	case "time.Now":
		return mkTime(C(uint64(st.clock), 64)), true, ""
	case "time.Since":
		return Bin("bvsub", C(uint64(st.clock), 64), tns(args[0])), true, ""
	case "(time.Time).Add":
		return mkTime(Bin("bvadd", tns(args[0]), args[1].(*Term))), true, ""
	case "(time.Time).Sub":
		return Bin("bvsub", tns(args[0]), tns(args[1])), true, ""
	case "(time.Time).Before":
		return Cmp("bvslt", tns(args[0]), tns(args[1])), true, ""
	case "(time.Time).After":
		return Cmp("bvsgt", tns(args[0]), tns(args[1])), true, ""
	case "(time.Time).Equal":
		return Cmp("=", tns(args[0]), tns(args[1])), true, ""
	case "(time.Time).IsZero":
		return Cmp("=", tns(args[0]), C(0, 64)), true, ""
	case "time.Sleep":
		return nil, true, ""
	case "time.After":
		return e.newTimerChan(st, dur(args[0]), 0), true, ""
	case "time.NewTimer":
		ch := e.newTimerChan(st, dur(args[0]), 0)
		return mkTimerStruct(f.Signature.Results().At(0).Type().(*types.Pointer).Elem(), ch), true, ""
	case "time.NewTicker":
		ch := e.newTimerChan(st, dur(args[0]), dur(args[0]))
		return mkTimerStruct(f.Signature.Results().At(0).Type().(*types.Pointer).Elem(), ch), true, ""
	case "(*time.Timer).Stop", "(*time.Ticker).Stop", "(*time.Timer).Reset", "(*time.Ticker).Reset":
		p := args[0].(Ptr)
		if p.obj == 0 {
			e.panicVC(st, "nil timer", B(true))
			return nil, true, "VC:"
		}
		ch := st.load(p).(StructV)[0].(Ptr)
		was := false
		for i := range st.timers {
			if st.timers[i].ch == ch.obj {
				was = !st.timers[i].stopped
				if strings.HasSuffix(full, "Stop") {
					st.timers[i].stopped = true
				} else {
					st.timers[i].stopped = false
					st.timers[i].deadline = st.clock + dur(args[1])
				}
			}
		}
		if strings.HasSuffix(full, "Ticker).Stop") || strings.HasSuffix(full, "Ticker).Reset") {
			return nil, true, ""
		}
		return B(was), true, ""
	}
	if f.Blocks != nil {
		return nil, false, "" // run real SSA (Duration arithmetic etc.)
	}
	return Opaque{full}, true, ""
}

func itoa(v int64) string {
	if v == 0 {
		return "0"
	}
	neg := v < 0
	if neg {
		v = -v
	}
	s := ""
	for v > 0 {
		s = string(rune('0'+v%10)) + s
		v /= 10
	}
	if neg {
		s = "-" + s
	}
	return s
}

func (e *Engine) logEv(st *State, p Ptr, kind string) {
	if st.shared == 0 || p.obj > st.shared || p.obj == 0 {
		return
	}
	st.events = append(st.events, kind+" "+lockKey(p))
}

// decide resolves a symbolic condition inside a model: constants directly, otherwise through the
// fork-and-re-execute protocol (pendingEq): the first call records the condition and returns false; the call
// instruction is then re-executed in both successor states with the decision memoised.
func (e *Engine) decide(st *State, c *Term) bool {
	if c.IsConst() {
		return c.True()
	}
	key := "d" + structKey(c)
	if d, ok := st.decided[key]; ok {
		return d
	}
	if e.pendingEq == nil {
		e.pendingEq = c
		e.pendingKey = key
	}
	return false
}

// structKey is a structural fingerprint of a term (stable across re-execution, unlike term ids).
func structKey(t *Term) string {
	memo := map[int]string{}
	var rec func(t *Term) string
	rec = func(t *Term) string {
		switch t.Op {
		case "const", "bconst":
			return fmt.Sprintf("c%d:%d", t.Val, t.W)
		case "var":
			return t.Name
		}
		if k, ok := memo[t.id]; ok {
			return k
		}
		h := sha1.New()
		fmt.Fprintf(h, "%s/%d/%d(", t.Op, t.W, t.Val)
		for _, a := range t.Args {
			h.Write([]byte(rec(a)))
			h.Write([]byte{','})
		}
		k := fmt.Sprintf("%x", h.Sum(nil)[:10])
		memo[t.id] = k
		return k
	}
	return rec(t)
}
