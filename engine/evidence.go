package main

import (
	"encoding/json"
	"fmt"
	"os"
	"os/exec"
	"path/filepath"
	"sort"
	"strings"
	"time"
)

func writeEvidence(path string, d *Descriptor, tier string, seed int, results []*EntryResult, kf []KnownFinding,
	validated, mismatches, nViol int, knownLines []string, wall, loadT time.Duration) error {
	states, trans, q, sat, unsat, unk, obl, disch, unsupported, bigalloc := 0, 0, 0, 0, 0, 0, 0, 0, 0, 0
	var solverT time.Duration
	funcs := map[string]bool{}
	var samples []interface{}
	var perEntry []interface{}
	distinct := 0
	for _, r := range results {
		e := r.Eng
		if e == nil {
			continue
		}
		states += e.paths
		trans += e.instrs
		q += r.Queries[0]
		sat += r.Queries[1]
		unsat += r.Queries[2]
		unk += r.Queries[3]
		obl += e.obligations
		disch += e.proved
		unsupported += e.unsupported
		bigalloc += e.bigAlloc
		solverT += r.SolverTime
		for f := range e.funcs {
			funcs[f] = true
		}
		for i, w := range e.witnesses {
			if i < 3 {
				samples = append(samples, map[string]interface{}{"entry": r.Cfg.Fn, "kind": "completed path witness", "nd_inputs": w.ND,
					"nd_widths": w.Widths, "observed": w.Obs, "assert_failures": w.Fails, "path_condition_terms": w.PCTerms, "reached": w.Reached})
			}
		}
		for _, v := range sortedViol(e.known) {
			samples = append(samples, map[string]interface{}{"entry": r.Cfg.Fn, "kind": "known finding counterexample", "finding": v.Finding,
				"label": v.Label, "nd_inputs": v.ND, "in": v.Fn})
		}
		// paths that reached a property assertion are the non-trivial ones
		if len(e.asserted) > 0 || e.obligations > 0 {
			distinct += e.paths
		}
		asserted := make([]string, 0, len(e.asserted))
		for l := range e.asserted {
			asserted = append(asserted, l)
		}
		sort.Strings(asserted)
		perEntry = append(perEntry, map[string]interface{}{"entry": r.Cfg.Fn, "params": r.Cfg.Params, "paths": e.paths, "ssa_instructions": e.instrs,
			"forks": e.forks, "merged_calls": e.merges, "vcs": e.obligations, "vcs_discharged": e.proved, "queries": r.Queries[0],
			"solver_s": round3(r.SolverTime.Seconds()), "wall_s": round3(r.Wall.Seconds()), "functions": len(e.funcs), "assert_labels": asserted,
			"unwind": e.unwind, "alloc_max": e.allocMax, "timeout_s": r.Cfg.TimeoutS, "sched": r.Cfg.Sched, "native_validation": !r.Cfg.NoNative,
			"alloc_classes_represented": e.bigAlloc, "assume_cut_paths": e.assumeCut, "init_notes": e.initNotes})
	}
	if len(samples) == 0 {
		samples = append(samples, map[string]interface{}{"kind": "none", "note": "no completed path witness in this run"})
	}
	fl := make([]string, 0, len(funcs))
	for f := range funcs {
		if strings.Contains(f, "bio-rd") || strings.Contains(f, "bio-routing") {
			fl = append(fl, f)
		}
	}
	sort.Strings(fl)
	var kfl []string
	for _, k := range kf {
		if k.Fixed {
			kfl = append(kfl, "fixed: "+k.Text)
		} else {
			kfl = append(kfl, "known: "+k.ID+" "+k.Text)
		}
	}
	cov := map[string]interface{}{
		"states":                        max1(states),
		"transitions":                   max1(trans),
		"traces_validated_against_impl": validated,
		"samples":                       samples,
		"obligations":                   obl,
		"discharged":                    disch,
		"evaluations":                   max1(q),
		"distinct_nontrivial":           distinct,
		"rule": "states = symbolic paths of the harness entries completed by the SSA executor; each path covers every concrete input satisfying its path condition; " +
			"transitions = SSA instructions executed symbolically; evaluations = SMT queries; distinct_nontrivial = completed paths of entries that discharged at least one verification condition; " +
			"traces_validated_against_impl = solver-produced inputs (path witnesses, counterexamples) re-run on the compiled real code with identical observations",
		"functions_encoded":   fl,
		"functions_count":     len(funcs),
		"queries":             map[string]int{"total": q, "sat": sat, "unsat": unsat, "unknown": unk},
		"solver_time_s":       round3(solverT.Seconds()),
		"load_ssa_s":          round3(loadT.Seconds()),
		"solver":              solverBin() + " (incremental, one process per entry)",
		"bounds":              d.Bounds[tier],
		"outside_bounds":      d.OutsideBounds,
		"models_used":         d.Models,
		"unsupported_paths":   unsupported,
		"validation_mismatch": mismatches,
		"known_findings":      kfl,
		"known_findings_seen": knownLines,
		"entries":             perEntry,
		"exhaustive":          false,
		"technique":           d.Technique,
	}
	ev := map[string]interface{}{
		"property_id": d.Property,
		"tier":        tier,
		"seed":        seed,
		"level":       "model_checking",
		"coverage":    cov,
		"assumptions": append([]string{"go/packages + go/ssa (x/tools v0.29.0) build the SSA of /repo's working tree", "symgo executor and its models (validated by native replay of solver witnesses on every run)", solverVersion()}, d.Models...),
		"wall_s":      round3(wall.Seconds()),
		"violations":  nViol,
	}
	b, err := json.MarshalIndent(ev, "", " ")
	if err != nil {
		return err
	}
	os.MkdirAll(filepath.Dir(path), 0755)
	return os.WriteFile(path, append(b, '\n'), 0644)
}

func round3(f float64) float64 {
	var x float64
	fmt.Sscanf(fmt.Sprintf("%.3f", f), "%f", &x)
	return x
}

func max1(n int) int {
	if n < 1 {
		return 1
	}
	return n
}

// solverVersion reports the solver binary in use and what it says about itself.
func solverVersion() string {
	out, err := exec.Command(solverBin(), "--version").Output()
	if err != nil {
		return solverBin() + " (version unknown)"
	}
	return solverBin() + ": " + strings.TrimSpace(string(out))
}
