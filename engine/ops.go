package main

import (
	"fmt"
	"go/token"
	"go/types"

	"golang.org/x/tools/go/ssa"
)

func (e *Engine) concreteEq(a, b Value) bool {
	switch x := a.(type) {
	case *Term:
		y, ok := b.(*Term)
		if !ok {
			return false
		}
		if x == y {
			return true
		}
		r := Eq(x, y)
		if r.IsConst() {
			return r.True()
		}
		key := fmt.Sprintf("%d,%d", x.id, y.id)
		if e.curSt != nil {
			if d, ok := e.curSt.decided[key]; ok {
				return d
			}
		}
		if e.pendingEq == nil {
			e.pendingEq = r
			e.pendingKey = key
		}
		e.approxEq++
		return false
	case Ptr:
		y, ok := b.(Ptr)
		return ok && ptrEq(x, y)
	case string:
		y, ok := b.(string)
		return ok && x == y
	case SymStr:
		y, ok := b.(SymStr)
		if !ok || x.kind != y.kind || len(x.parts) != len(y.parts) {
			return false
		}
		for i := range x.parts {
			if !e.concreteEq(x.parts[i], y.parts[i]) {
				return false
			}
		}
		return true
	case IfaceV:
		y, ok := b.(IfaceV)
		if !ok {
			return false
		}
		if x.t == nil || y.t == nil {
			return x.t == nil && y.t == nil
		}
		return types.Identical(x.t, y.t) && e.concreteEq(x.v, y.v)
	case StructV:
		y, ok := b.(StructV)
		if !ok || len(x) != len(y) {
			return false
		}
		for i := range x {
			if !e.concreteEq(x[i], y[i]) {
				return false
			}
		}
		return true
	case *ErrObj:
		return a == b
	case nil:
		return b == nil
	}
	panic(fmt.Sprintf("concreteEq %T", a))
}

func (e *Engine) structEq(a, b StructV) *Term {
	r := B(true)
	for i := range a {
		switch x := a[i].(type) {
		case *Term:
			r = And(r, Eq(x, b[i].(*Term)))
		case StructV:
			r = And(r, e.structEq(x, b[i].(StructV)))
		case Ptr:
			r = And(r, B(ptrEq(x, b[i].(Ptr))))
		case string:
			r = And(r, B(x == b[i].(string)))
		default:
			panic(fmt.Sprintf("structEq %T", x))
		}
	}
	return r
}

func (e *Engine) binop(in *ssa.BinOp, xv, yv Value) (Value, string) {
	if xv == nil {
		if _, ok := yv.(IfaceV); ok || yv == nil {
			xv = IfaceV{} // the zero interface value
		}
	}
	if yv == nil {
		if _, ok := xv.(IfaceV); ok {
			yv = IfaceV{}
		}
	}
	switch x := xv.(type) {
	case Ptr:
		y, ok := yv.(Ptr)
		if !ok {
			return nil, "ptr compare with non-ptr"
		}
		eq := ptrEq(x, y)
		if in.Op == token.EQL {
			return B(eq), ""
		}
		return B(!eq), ""
	case IfaceV:
		y, _ := yv.(IfaceV)
		eq := false
		if x.t == nil || y.t == nil {
			eq = x.t == nil && y.t == nil
		} else if types.Identical(x.t, y.t) {
			eq = e.concreteEq(x.v, y.v)
		}
		if in.Op == token.EQL {
			return B(eq), ""
		}
		return B(!eq), ""
	case SymStr:
		if in.Op == token.ADD {
			return SymStr{kind: "concat", parts: []Value{x, yv}}, ""
		}
		if in.Op == token.EQL || in.Op == token.NEQ {
			eq := e.concreteEq(x, yv)
			if in.Op == token.EQL {
				return B(eq), ""
			}
			return B(!eq), ""
		}
		return nil, "string op " + in.Op.String() + " on symbolic string"
	case string:
		if ys, isSym := yv.(SymStr); isSym && in.Op == token.ADD {
			return SymStr{kind: "concat", parts: []Value{x, ys}}, ""
		}
		if ys, isSym := yv.(SymStr); isSym && (in.Op == token.EQL || in.Op == token.NEQ) {
			_ = ys
			return B(in.Op == token.NEQ), "" // a literal never equals a formatted value (assumption of the string model)
		}
		y, ok := yv.(string)
		if !ok {
			return nil, "string op with opaque"
		}
		switch in.Op {
		case token.EQL:
			return B(x == y), ""
		case token.NEQ:
			return B(x != y), ""
		case token.ADD:
			return x + y, ""
		case token.LSS:
			return B(x < y), ""
		}
		return nil, "string op " + in.Op.String()
	case SliceV:
		y := yv.(SliceV)
		if !y.isNil {
			return nil, "slice compare non-nil"
		}
		if in.Op == token.EQL {
			return B(x.isNil), ""
		}
		return B(!x.isNil), ""
	case StructV:
		r := e.structEq(x, yv.(StructV))
		if in.Op == token.NEQ {
			return Not(r), ""
		}
		return r, ""
	case *ssa.Function, ClosureV:
		return B(in.Op == token.NEQ), "" // func != nil
	case Opaque:
		return nil, "binop on opaque (" + x.what + ")"
	}
	x, ok1 := xv.(*Term)
	y, ok2 := yv.(*Term)
	if !ok1 || !ok2 {
		return nil, fmt.Sprintf("binop on %T,%T", xv, yv)
	}
	_, signed := width(in.X.Type())
	if x.W == 0 {
		switch in.Op {
		case token.EQL:
			return Eq(x, y), ""
		case token.NEQ:
			return Not(Eq(x, y)), ""
		case token.AND, token.LAND:
			return And(x, y), ""
		case token.OR, token.LOR:
			return Or(x, y), ""
		}
	}
	switch in.Op {
	case token.ADD:
		return Bin("bvadd", x, y), ""
	case token.SUB:
		return Bin("bvsub", x, y), ""
	case token.MUL:
		return Bin("bvmul", x, y), ""
	case token.AND:
		return Bin("bvand", x, y), ""
	case token.OR:
		return Bin("bvor", x, y), ""
	case token.XOR:
		return Bin("bvxor", x, y), ""
	case token.AND_NOT:
		return Bin("bvand", x, BvNot(y)), ""
	case token.QUO:
		if signed {
			if x.IsConst() && y.IsConst() && y.Val != 0 {
				return C(uint64(sx(x.Val, x.W)/sx(y.Val, y.W)), x.W), ""
			}
			return mkT("bvsdiv", x.W, x, y), ""
		}
		return Bin("bvudiv", x, y), ""
	case token.REM:
		if signed {
			if x.IsConst() && y.IsConst() && y.Val != 0 {
				return C(uint64(sx(x.Val, x.W)%sx(y.Val, y.W)), x.W), ""
			}
			return mkT("bvsrem", x.W, x, y), ""
		}
		return Bin("bvurem", x, y), ""
	case token.SHL, token.SHR:
		cnt := y
		var c2 *Term
		if cnt.W < x.W {
			c2 = Zext(cnt, x.W)
		} else if cnt.W > x.W {
			big := Cmp("bvuge", cnt, C(uint64(x.W), cnt.W))
			c2 = Ite(big, C(uint64(x.W), x.W), Extract(cnt, x.W))
		} else {
			c2 = cnt
		}
		if in.Op == token.SHL {
			return Bin("bvshl", x, c2), ""
		}
		if signed {
			if x.IsConst() && c2.IsConst() {
				sh := c2.Val
				if sh > 63 {
					sh = 63
				}
				return C(uint64(sx(x.Val, x.W)>>sh), x.W), ""
			}
			return mkT("bvashr", x.W, x, c2), ""
		}
		return Bin("bvlshr", x, c2), ""
	case token.EQL:
		return Cmp("=", x, y), ""
	case token.NEQ:
		return Not(Cmp("=", x, y)), ""
	case token.LSS:
		if signed {
			return Cmp("bvslt", x, y), ""
		}
		return Cmp("bvult", x, y), ""
	case token.LEQ:
		if signed {
			return Cmp("bvsle", x, y), ""
		}
		return Cmp("bvule", x, y), ""
	case token.GTR:
		if signed {
			return Cmp("bvsgt", x, y), ""
		}
		return Cmp("bvugt", x, y), ""
	case token.GEQ:
		if signed {
			return Cmp("bvsge", x, y), ""
		}
		return Cmp("bvuge", x, y), ""
	}
	return nil, "binop " + in.Op.String()
}

func (e *Engine) convert(v Value, from, to types.Type) (Value, string) {
	switch x := v.(type) {
	case *Term:
		fw, fs := width(from)
		tw, _ := width(to)
		if fw <= 0 || tw <= 0 {
			if tb, ok := to.Underlying().(*types.Basic); ok && tb.Info()&types.IsFloat != 0 {
				if fs {
					return FloatV{Sext(x, 64)}, ""
				}
				return FloatV{Zext(x, 64)}, ""
			}
			return nil, fmt.Sprintf("convert %v -> %v", from, to)
		}
		if tw < fw {
			return Extract(x, tw), ""
		}
		if fs {
			return Sext(x, tw), ""
		}
		return Zext(x, tw), ""
	case FloatV:
		tw, _ := width(to)
		if tw > 0 {
			return Extract(x.t, tw), ""
		}
		return x, ""
	case string:
		if _, ok := to.Underlying().(*types.Slice); ok {
			return nil, "string->[]byte conversion"
		}
		return x, ""
	case Opaque:
		return x, ""
	case SymStr:
		return x, "" // string <-> []byte conversions keep the symbolic string
	case SliceV:
		if tb, ok := to.Underlying().(*types.Basic); ok && tb.Info()&types.IsString != 0 {
			return "<bytes-as-string>", ""
		}
	}
	return v, ""
}
