package main

import (
	"fmt"
	"go/constant"
	"go/token"
	"go/types"
	"os"
	"strings"

	"golang.org/x/tools/go/ssa"
)

type Engine struct {
	prog    *ssa.Program
	sol     *Solver
	globals map[*ssa.Global]int
	inited  map[*ssa.Package]bool
	initMode int
	errType types.Type
	pureMemo map[*ssa.Function]int

	// config
	noMerge   bool
	allocMax  int
	schedAll  bool
	maxSwitch int
	unwind    int

	// stats
	paths, instrs, forks, merges, proved, unsupported, bigAlloc, approxEq, deadlocks int
	violations []string
	funcs      map[string]bool
	reach      map[string]bool
	ndCount    int
	completed  []*State
	curSt      *State
	pendingEq  *Term
	pendingKey string
}

// ---------------- driver

// drive explores all states in work. If barrierOut != nil, states whose barrier frame
// returned are collected there instead of continuing.
func (e *Engine) drive(work []*State, barrierOut *[]*State) {
	for len(work) > 0 {
		st := work[len(work)-1]
		work = work[:len(work)-1]
		succ := e.step(st, barrierOut)
		for i := len(succ) - 1; i >= 0; i-- {
			work = append(work, succ[i])
		}
	}
}

func (e *Engine) abort(st *State, why string) []*State {
	e.unsupported++
	st.aborted = why
	if len(e.violations) < 40 {
		e.violations = append(e.violations, "ABORTED(unsupported): "+why)
	}
	return nil
}

func (e *Engine) feasible(st *State, c *Term) bool {
	if c.True() {
		return true
	}
	if c.False() {
		return false
	}
	r, _ := e.sol.Check(append(append([]*Term(nil), st.pc...), c), nil)
	return r != "unsat"
}

func (e *Engine) vc(st *State, what string, bad *Term) {
	if bad.False() {
		e.proved++
		return
	}
	r, m := e.sol.Check(append(append([]*Term(nil), st.pc...), bad), st.vars)
	if r == "unsat" {
		e.proved++
		return
	}
	ms := make([]string, 0, len(m))
	for _, v := range st.vars {
		if x, ok := m[v.Name]; ok {
			x = strings.TrimSuffix(strings.TrimPrefix(x, "(("+v.Name+" "), "))")
			ms = append(ms, v.Name+"="+x)
		}
	}
	e.violations = append(e.violations, fmt.Sprintf("%s [%s] %s", what, r, strings.Join(ms, " ")))
}

// fork on a symbolic boolean; returns states for true and false side (nil if infeasible).
func (e *Engine) forkOn(st *State, c *Term) (t, f *State) {
	if c.True() {
		return st, nil
	}
	if c.False() {
		return nil, st
	}
	ft := e.feasible(st, c)
	ff := true
	if ft {
		ff = e.feasible(st, Not(c))
	}
	switch {
	case ft && ff:
		e.forks++
		s2 := st.clone()
		st.pc = append(st.pc, c)
		s2.pc = append(s2.pc, Not(c))
		return st, s2
	case ft:
		st.pc = append(st.pc, c)
		return st, nil
	default:
		st.pc = append(st.pc, Not(c))
		return nil, st
	}
}

// ---------------- zero values / constants

func (e *Engine) zero(t types.Type) Value {
	switch u := t.Underlying().(type) {
	case *types.Basic:
		w, _ := width(t)
		if w == 0 {
			return B(false)
		}
		if w > 0 {
			return C(0, w)
		}
		if u.Info()&types.IsString != 0 {
			return ""
		}
		if u.Kind() == types.UnsafePointer {
			return Ptr{}
		}
		if u.Kind() == types.UntypedNil {
			return Ptr{}
		}
		return Opaque{"basic " + u.String()}
	case *types.Pointer:
		return Ptr{}
	case *types.Struct:
		s := make(StructV, u.NumFields())
		for i := range s {
			s[i] = e.zero(u.Field(i).Type())
		}
		return s
	case *types.Array:
		s := make(StructV, int(u.Len()))
		for i := range s {
			s[i] = e.zero(u.Elem())
		}
		return s
	case *types.Slice:
		return SliceV{isNil: true}
	case *types.Interface:
		return IfaceV{}
	case *types.Map, *types.Chan, *types.Signature:
		return Ptr{}
	case *types.Tuple:
		return nil
	}
	panic(fmt.Sprintf("zero: %v", t))
}

func (e *Engine) constVal(c *ssa.Const) Value {
	t := c.Type()
	if c.Value == nil {
		return e.zero(t)
	}
	w, _ := width(t)
	switch {
	case w == 0:
		return B(constant.BoolVal(c.Value))
	case w > 0:
		if u, ok := constant.Uint64Val(c.Value); ok {
			return C(u, w)
		}
		i, _ := constant.Int64Val(c.Value)
		return C(uint64(i), w)
	}
	if c.Value.Kind() == constant.String {
		return constant.StringVal(c.Value)
	}
	if c.Value.Kind() == constant.Float {
		f, _ := constant.Float64Val(c.Value)
		return Opaque{fmt.Sprintf("float %v", f)}
	}
	panic("const " + c.String())
}

func (e *Engine) globalPtr(st *State, g *ssa.Global) Ptr {
	id, ok := e.globals[g]
	if !ok {
		id = 1000000 + len(e.globals)
		e.globals[g] = id
	}
	if _, ok := st.heap[id]; !ok {
		st.heap[id] = &Obj{e.zero(g.Type().(*types.Pointer).Elem())}
		if g.Pkg != nil && g.Pkg.Pkg.Path() == "io" && (g.Name() == "EOF" || g.Name() == "ErrUnexpectedEOF") {
			st.heap[id].v = IfaceV{e.errType, &ErrObj{msg: "io." + g.Name()}}
		}
	}
	return Ptr{obj: id}
}

func (e *Engine) get(st *State, fr *Frame, v ssa.Value) Value {
	switch x := v.(type) {
	case *ssa.Const:
		return e.constVal(x)
	case *ssa.Function:
		return x
	case *ssa.Global:
		return e.globalPtr(st, x)
	case *ssa.Builtin:
		return x
	}
	r, ok := fr.locals[v]
	if !ok {
		panic("unbound " + v.Name() + " in " + fr.fn.String())
	}
	return r
}

// ---------------- one step: run current goroutine until something multi-outcome happens

func (e *Engine) pushFrame(st *State, g *G, fn *ssa.Function, args []Value, free []Value, retTo ssa.Value) *Frame {
	if fn.Blocks == nil {
		panic("no body: " + fn.String())
	}
	e.funcs[fn.String()] = true
	fr := &Frame{fn: fn, block: fn.Blocks[0], locals: map[ssa.Value]Value{}, visited: map[*ssa.BasicBlock]int{}, mark: st.next, retTo: retTo}
	for i, p := range fn.Params {
		fr.locals[p] = args[i]
	}
	for i, fv := range fn.FreeVars {
		fr.locals[fv] = free[i]
	}
	g.frames = append(g.frames, fr)
	return fr
}

// enterBlock handles phis; returns false if unwind bound exceeded
func (e *Engine) enterBlock(st *State, fr *Frame, b *ssa.BasicBlock) bool {
	prev := fr.block
	fr.prev = prev
	fr.block = b
	fr.visited[b]++
	if fr.visited[b] > e.unwind {
		return false
	}
	var vals []Value
	n := 0
	for _, in := range b.Instrs {
		p, ok := in.(*ssa.Phi)
		if !ok {
			break
		}
		for i, pb := range b.Preds {
			if pb == prev {
				vals = append(vals, e.get(st, fr, p.Edges[i]))
				break
			}
		}
		n++
	}
	for i := 0; i < n; i++ {
		fr.locals[b.Instrs[i].(*ssa.Phi)] = vals[i]
	}
	fr.idx = n
	return true
}

func (e *Engine) step(st *State, barrierOut *[]*State) []*State {
	for {
		g := st.g()
		if g.status != gRunnable {
			return e.schedule(st)
		}
		if len(g.frames) == 0 {
			panic("runnable goroutine without frames")
		}
		fr := g.top()
		if fr.native != nil {
			return e.nativeStep(st, g, fr)
		}
		if fr.idx >= len(fr.block.Instrs) {
			panic("fell off block in " + fr.fn.String())
		}
		in := fr.block.Instrs[fr.idx]
		e.instrs++
		switch x := in.(type) {
		case *ssa.If:
			c, ok := e.get(st, fr, x.Cond).(*Term)
			if !ok {
				return e.abort(st, "branch on opaque value in "+fr.fn.String())
			}
			tb, fb := fr.block.Succs[0], fr.block.Succs[1]
			t, f := e.forkOn(st, c)
			var out []*State
			if t != nil {
				if !e.enterBlock(t, t.g().top(), tb) {
					e.abort(t, "unwind bound in "+fr.fn.String())
				} else {
					out = append(out, t)
				}
			}
			if f != nil {
				if !e.enterBlock(f, f.g().top(), fb) {
					e.abort(f, "unwind bound in "+fr.fn.String())
				} else {
					out = append(out, f)
				}
			}
			if len(out) == 1 && out[0] == st {
				continue
			}
			return out
		case *ssa.Jump:
			if !e.enterBlock(st, fr, fr.block.Succs[0]) {
				return e.abort(st, "unwind bound in "+fr.fn.String())
			}
			continue
		case *ssa.Return:
			var ret Value
			switch len(x.Results) {
			case 0:
			case 1:
				ret = e.get(st, fr, x.Results[0])
			default:
				t := make(TupleV, len(x.Results))
				for i, r := range x.Results {
					t[i] = e.get(st, fr, r)
				}
				ret = t
			}
			if len(fr.defers) > 0 {
				return e.abort(st, "pending defers at return in "+fr.fn.String())
			}
			if out, done := e.doReturn(st, g, fr, ret, barrierOut); done {
				return out
			}
			continue
		case *ssa.RunDefers:
			if len(fr.defers) > 0 {
				d := fr.defers[len(fr.defers)-1]
				fr.defers = fr.defers[:len(fr.defers)-1]
				// run deferred call; stay on RunDefers until empty
				succ, cont := e.invokeValue(st, g, fr, d.fn, d.args, nil, true)
				if cont {
					continue
				}
				return succ
			}
			fr.idx++
			continue
		case *ssa.Panic:
			if e.initMode > 0 {
				// package initialisers that rely on unsafe tricks (net/convert.go endianness probe): treat as returning
				if out, done := e.doReturn(st, g, fr, nil, barrierOut); done {
					return out
				}
				continue
			}
			e.vc(st, "explicit panic in "+fr.fn.String(), B(true))
			return nil
		case ssa.CallInstruction: // Call, Go, Defer
			succ, cont := e.doCall(st, g, fr, x)
			if cont {
				continue
			}
			return succ
		case *ssa.Select:
			succ, cont := e.doSelect(st, g, fr, x)
			if cont {
				continue
			}
			return succ
		case *ssa.Send:
			succ, cont := e.doSend(st, g, fr, x)
			if cont {
				continue
			}
			return succ
		case *ssa.MakeSlice:
			n, ok := e.get(st, fr, x.Len).(*Term)
			if !ok {
				return e.abort(st, "make with opaque len")
			}
			if !n.IsConst() {
				var res []*State
				for v := 0; v <= e.allocMax; v++ {
					c := Cmp("=", n, C(uint64(v), n.W))
					if e.feasible(st, c) {
						s2 := st.clone()
						s2.pc = append(s2.pc, c)
						s2.g().top().locals[x.Len] = C(uint64(v), n.W)
						res = append(res, s2)
					}
				}
				if e.feasible(st, Cmp("bvugt", n, C(uint64(e.allocMax), n.W))) {
					e.bigAlloc++
				}
				return res
			}
			capN := int(n.Val)
			if cv, ok := e.get(st, fr, x.Cap).(*Term); ok && cv.IsConst() && int(cv.Val) > capN {
				capN = int(cv.Val)
			}
			et := x.Type().Underlying().(*types.Slice).Elem()
			elems := make(StructV, capN)
			z := e.zero(et)
			for i := range elems {
				elems[i] = z
			}
			p := st.alloc(elems)
			fr.locals[x] = SliceV{arr: p.obj, n: int(n.Val), cap: capN}
			fr.idx++
			continue
		case *ssa.UnOp:
			if x.Op == token.ARROW {
				succ, cont := e.doRecv(st, g, fr, x)
				if cont {
					continue
				}
				return succ
			}
			e.curSt, e.pendingEq = st, nil
			snapW := st.writes
			why := e.simple(st, fr, in)
			if e.pendingEq != nil && st.writes == snapW {
				// undecided symbolic equality (map key / interface compare): fork and re-execute
				c, key := e.pendingEq, e.pendingKey
				e.pendingEq = nil
				delete(fr.locals, valueOf(in))
				t, f := e.forkOn(st, c)
				var out []*State
				if t != nil {
					t.decided[key] = true
					out = append(out, t)
				}
				if f != nil {
					f.decided[key] = false
					out = append(out, f)
				}
				return out
			}
			if why != "" {
				if strings.HasPrefix(why, "VC:") {
					return nil
				}
				return e.abort(st, why)
			}
			fr.idx++
			continue
		default:
			e.curSt, e.pendingEq = st, nil
			snapW := st.writes
			why := e.simple(st, fr, in)
			if e.pendingEq != nil && st.writes == snapW {
				// undecided symbolic equality (map key / interface compare): fork and re-execute
				c, key := e.pendingEq, e.pendingKey
				e.pendingEq = nil
				delete(fr.locals, valueOf(in))
				t, f := e.forkOn(st, c)
				var out []*State
				if t != nil {
					t.decided[key] = true
					out = append(out, t)
				}
				if f != nil {
					f.decided[key] = false
					out = append(out, f)
				}
				return out
			}
			if why != "" {
				if strings.HasPrefix(why, "VC:") {
					return nil
				}
				return e.abort(st, why)
			}
			fr.idx++
			continue
		}
	}
}

// doReturn pops the frame. done=true means the step should return `out`.
func (e *Engine) doReturn(st *State, g *G, fr *Frame, ret Value, barrierOut *[]*State) (out []*State, done bool) {
	g.frames = g.frames[:len(g.frames)-1]
	if fr.barrier {
		g.retval = ret
		if barrierOut == nil {
			panic("barrier without collector")
		}
		*barrierOut = append(*barrierOut, st)
		return nil, true
	}
	if len(g.frames) == 0 {
		g.status = gDone
		g.retval = ret
		if g.id == 0 {
			e.paths++
			e.completed = append(e.completed, st)
			if lf := os.Getenv("EVLOG"); lf != "" && len(st.events) > 0 {
				f, _ := os.OpenFile(lf, os.O_APPEND|os.O_CREATE|os.O_WRONLY, 0644)
				fmt.Fprintf(f, "PATH\n%s\n", strings.Join(st.events, "\n"))
				f.Close()
			}
			return nil, true
		}
		return e.schedule(st), true
	}
	caller := g.top()
	if caller.native != nil {
		caller.native.ret = ret
		caller.native.hasRet = true
		return nil, false
	}
	cin := caller.block.Instrs[caller.idx]
	if _, isRD := cin.(*ssa.RunDefers); isRD {
		return nil, false // stay on RunDefers
	}
	if v, ok := cin.(ssa.Value); ok {
		caller.locals[v] = ret
	}
	caller.idx++
	return nil, false
}

// ---------------- straight-line instructions. returns "" if ok, else reason (VC: prefix means path ended by violation)

func (e *Engine) simple(st *State, fr *Frame, in ssa.Instruction) string {
	switch x := in.(type) {
	case *ssa.Alloc:
		fr.locals[x] = st.alloc(e.zero(x.Type().(*types.Pointer).Elem()))
	case *ssa.FieldAddr:
		p, ok := e.get(st, fr, x.X).(Ptr)
		if !ok {
			return "FieldAddr on non-pointer"
		}
		if p.obj == 0 {
			e.vc(st, "nil dereference (field address) in "+fr.fn.String(), B(true))
			return "VC:"
		}
		fr.locals[x] = Ptr{p.obj, append(append([]int(nil), p.path...), x.Field)}
	case *ssa.Field:
		sv, ok := e.get(st, fr, x.X).(StructV)
		if !ok {
			return "Field on non-struct"
		}
		fr.locals[x] = sv[x.Field]
	case *ssa.IndexAddr:
		i, ok := e.get(st, fr, x.Index).(*Term)
		if !ok || !i.IsConst() {
			return "symbolic index in " + fr.fn.String()
		}
		switch b := e.get(st, fr, x.X).(type) {
		case Ptr:
			if b.obj == 0 {
				e.vc(st, "nil dereference (index) in "+fr.fn.String(), B(true))
				return "VC:"
			}
			n := len(st.load(b).(StructV))
			if int(i.Val) >= n {
				e.vc(st, "index out of range in "+fr.fn.String(), B(true))
				return "VC:"
			}
			fr.locals[x] = Ptr{b.obj, append(append([]int(nil), b.path...), int(i.Val))}
		case SliceV:
			if int64(i.Val) < 0 || int(i.Val) >= b.n {
				e.vc(st, fmt.Sprintf("index out of range [%d] with length %d in %s", int64(i.Val), b.n, fr.fn), B(true))
				return "VC:"
			}
			fr.locals[x] = Ptr{b.arr, append(decPath(b.apath), b.off+int(i.Val))}
		default:
			return "IndexAddr on ?"
		}
	case *ssa.Index:
		i, ok := e.get(st, fr, x.Index).(*Term)
		if !ok || !i.IsConst() {
			return "symbolic index"
		}
		switch b := e.get(st, fr, x.X).(type) {
		case StructV:
			fr.locals[x] = b[int(i.Val)]
		case string:
			if int(i.Val) >= len(b) {
				e.vc(st, "string index out of range", B(true))
				return "VC:"
			}
			fr.locals[x] = C(uint64(b[i.Val]), 8)
		default:
			return "Index on ?"
		}
	case *ssa.UnOp:
		v := e.get(st, fr, x.X)
		switch x.Op {
		case token.MUL:
			p, ok := v.(Ptr)
			if !ok {
				return "load through non-pointer"
			}
			if p.obj == 0 {
				e.vc(st, "nil dereference (load) in "+fr.fn.String(), B(true))
				return "VC:"
			}
			fr.locals[x] = st.load(p)
			e.logEv(st, p, "rd")
		case token.NOT:
			fr.locals[x] = Not(v.(*Term))
		case token.SUB:
			fr.locals[x] = BvNeg(v.(*Term))
		case token.XOR:
			fr.locals[x] = BvNot(v.(*Term))
		case token.ARROW:
			return "recv handled elsewhere"
		default:
			return "unop " + x.Op.String()
		}
	case *ssa.Store:
		p, ok := e.get(st, fr, x.Addr).(Ptr)
		if !ok {
			return "store through non-pointer"
		}
		if p.obj == 0 {
			e.vc(st, "nil dereference (store) in "+fr.fn.String(), B(true))
			return "VC:"
		}
		st.store(p, e.get(st, fr, x.Val))
		e.logEv(st, p, "wr")
		if p.obj <= fr.mark {
			st.writes++
		}
	case *ssa.BinOp:
		r, why := e.binop(x, e.get(st, fr, x.X), e.get(st, fr, x.Y))
		if why != "" {
			return why
		}
		fr.locals[x] = r
	case *ssa.Convert:
		if sv, isS := e.get(st, fr, x.X).(string); isS {
			if _, toSl := x.Type().Underlying().(*types.Slice); toSl {
				elems := make(StructV, len(sv))
				for i := range elems {
					elems[i] = C(uint64(sv[i]), 8)
				}
				p := st.alloc(elems)
				fr.locals[x] = SliceV{arr: p.obj, n: len(sv), cap: len(sv)}
				break
			}
		}
		r, why := e.convert(e.get(st, fr, x.X), x.X.Type(), x.Type())
		if why != "" {
			return why
		}
		fr.locals[x] = r
	case *ssa.ChangeType:
		fr.locals[x] = e.get(st, fr, x.X)
	case *ssa.ChangeInterface:
		fr.locals[x] = e.get(st, fr, x.X)
	case *ssa.MakeInterface:
		fr.locals[x] = IfaceV{x.X.Type(), e.get(st, fr, x.X)}
	case *ssa.Extract:
		tv, ok := e.get(st, fr, x.Tuple).(TupleV)
		if !ok {
			return "extract from non-tuple (opaque call result?)"
		}
		fr.locals[x] = tv[x.Index]
	case *ssa.Slice:
		return e.sliceInstr(st, fr, x)
	case *ssa.MakeClosure:
		fv := make([]Value, len(x.Bindings))
		for i, b := range x.Bindings {
			fv[i] = e.get(st, fr, b)
		}
		fr.locals[x] = ClosureV{x.Fn.(*ssa.Function), fv}
	case *ssa.MakeMap:
		fr.locals[x] = st.alloc(&MapModel{})
	case *ssa.MakeChan:
		n, _ := e.get(st, fr, x.Size).(*Term)
		c := 0
		if n != nil && n.IsConst() {
			c = int(n.Val)
		}
		fr.locals[x] = st.alloc(&ChanModel{cap: c})
	case *ssa.MapUpdate:
		mp := e.get(st, fr, x.Map).(Ptr)
		if mp.obj == 0 {
			e.vc(st, "assignment to entry in nil map in "+fr.fn.String(), B(true))
			return "VC:"
		}
		mm := st.heap[mp.obj].v.(*MapModel)
		k, v := e.get(st, fr, x.Key), e.get(st, fr, x.Value)
		nm := &MapModel{append([]Value(nil), mm.keys...), append([]Value(nil), mm.vals...)}
		found := false
		for i := range nm.keys {
			if e.concreteEq(nm.keys[i], k) {
				nm.vals[i] = v
				found = true
			}
		}
		if e.pendingEq != nil {
			return ""
		}
		if !found {
			nm.keys = append(nm.keys, k)
			nm.vals = append(nm.vals, v)
		}
		st.heap[mp.obj].v = nm
		st.writes++
	case *ssa.Lookup:
		mp, ok := e.get(st, fr, x.X).(Ptr)
		if !ok {
			return "lookup on string"
		}
		var res Value = e.zero(x.X.Type().Underlying().(*types.Map).Elem())
		okv := B(false)
		if mp.obj != 0 {
			mm := st.heap[mp.obj].v.(*MapModel)
			k := e.get(st, fr, x.Index)
			for i := range mm.keys {
				if e.concreteEq(mm.keys[i], k) {
					res, okv = mm.vals[i], B(true)
				}
			}
		}
		if e.pendingEq != nil {
			return ""
		}
		if x.CommaOk {
			fr.locals[x] = TupleV{res, okv}
		} else {
			fr.locals[x] = res
		}
	case *ssa.Range:
		mp, ok := e.get(st, fr, x.X).(Ptr)
		if !ok {
			return "range over string"
		}
		it := &MapIter{}
		if mp.obj != 0 {
			mm := st.heap[mp.obj].v.(*MapModel)
			it.keys, it.vals = mm.keys, mm.vals
		}
		fr.locals[x] = st.alloc(it)
	case *ssa.Next:
		ip := e.get(st, fr, x.Iter).(Ptr)
		it := st.heap[ip.obj].v.(*MapIter)
		mt := x.Iter.(*ssa.Range).X.Type().Underlying().(*types.Map)
		if it.pos >= len(it.keys) {
			fr.locals[x] = TupleV{B(false), e.zero(mt.Key()), e.zero(mt.Elem())}
		} else {
			fr.locals[x] = TupleV{B(true), it.keys[it.pos], it.vals[it.pos]}
			st.heap[ip.obj].v = &MapIter{it.keys, it.vals, it.pos + 1}
		}
	case *ssa.TypeAssert:
		iv, isI := e.get(st, fr, x.X).(IfaceV)
		if !isI {
			return "type assert on opaque"
		}
		ok := false
		if iv.t != nil {
			if types.IsInterface(x.AssertedType) {
				ok = types.Implements(iv.t, x.AssertedType.Underlying().(*types.Interface))
			} else {
				ok = types.Identical(iv.t, x.AssertedType)
			}
		}
		var res Value
		if ok {
			if types.IsInterface(x.AssertedType) {
				res = iv
			} else {
				res = iv.v
			}
		} else {
			res = e.zero(x.AssertedType)
		}
		if x.CommaOk {
			fr.locals[x] = TupleV{res, B(ok)}
		} else {
			if !ok {
				e.vc(st, fmt.Sprintf("failed type assertion to %v (dynamic type %v) in %s", x.AssertedType, iv.t, fr.fn), B(true))
				return "VC:"
			}
			fr.locals[x] = res
		}
	case *ssa.DebugRef:
	default:
		return fmt.Sprintf("unsupported instruction %T in %s", in, fr.fn)
	}
	return ""
}

func (e *Engine) sliceInstr(st *State, fr *Frame, x *ssa.Slice) string {
	lo, hi := 0, -1
	if x.Low != nil {
		t, ok := e.get(st, fr, x.Low).(*Term)
		if !ok || !t.IsConst() {
			return "symbolic slice bound in " + fr.fn.String()
		}
		lo = int(int64(t.Val))
	}
	if x.High != nil {
		t, ok := e.get(st, fr, x.High).(*Term)
		if !ok {
			return "opaque slice bound in " + fr.fn.String()
		}
		if !t.IsConst() {
			// VC: lo <= hi <= cap
			capN := -1
			switch b := e.get(st, fr, x.X).(type) {
			case SliceV:
				capN = b.cap
			case Ptr:
				if b.obj != 0 {
					capN = len(st.load(b).(StructV))
				}
			}
			if capN >= 0 {
				bad := Or(Cmp("bvslt", t, C(uint64(lo), t.W)), Cmp("bvsgt", t, C(uint64(capN), t.W)))
				e.vc(st, fmt.Sprintf("slice bounds out of range [%d:hi] with capacity %d, hi symbolic, in %s", lo, capN, fr.fn), bad)
			}
			return "symbolic slice bound (after VC) in " + fr.fn.String()
		}
		hi = int(int64(t.Val))
	}
	switch b := e.get(st, fr, x.X).(type) {
	case Ptr:
		if b.obj == 0 {
			e.vc(st, "nil dereference (slice of array pointer)", B(true))
			return "VC:"
		}
		n := len(st.load(b).(StructV))
		if hi < 0 {
			hi = n
		}

		if lo < 0 || lo > hi || hi > n {
			e.vc(st, fmt.Sprintf("slice bounds out of range [%d:%d] with capacity %d in %s", lo, hi, n, fr.fn), B(true))
			return "VC:"
		}
		fr.locals[x] = SliceV{arr: b.obj, off: lo, n: hi - lo, cap: n - lo, apath: encPath(b.path)}
	case SliceV:
		if hi < 0 {
			hi = b.n
		}
		if lo < 0 || lo > hi || hi > b.cap {
			e.vc(st, fmt.Sprintf("slice bounds out of range [%d:%d] with capacity %d in %s", lo, hi, b.cap, fr.fn), B(true))
			return "VC:"
		}
		fr.locals[x] = SliceV{arr: b.arr, off: b.off + lo, n: hi - lo, cap: b.cap - lo, isNil: b.isNil && hi == 0, apath: b.apath}
	case string:
		if hi < 0 {
			hi = len(b)
		}
		if lo < 0 || lo > hi || hi > len(b) {
			e.vc(st, "string slice bounds out of range", B(true))
			return "VC:"
		}
		fr.locals[x] = b[lo:hi]
	default:
		return "slice of ?"
	}
	return ""
}

func valueOf(in ssa.Instruction) ssa.Value {
	if v, ok := in.(ssa.Value); ok {
		return v
	}
	return nil
}
