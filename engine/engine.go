package main

import (
	"fmt"
	"go/constant"
	"go/token"
	"go/types"
	"sort"
	"strings"
	"time"

	"golang.org/x/tools/go/ssa"
)

// EntryCfg is one harness entry of a property descriptor.
type EntryCfg struct {
	Fn        string         `json:"fn"`
	Pkg       string         `json:"pkg,omitempty"`
	Tiers     []string       `json:"tiers,omitempty"`
	Unwind    int            `json:"unwind,omitempty"`
	AllocMax  int            `json:"alloc_max,omitempty"`
	TimeoutS  int            `json:"timeout_s,omitempty"`
	Sched     string         `json:"sched,omitempty"` // "settle" (default) | "all"
	MaxSwitch int            `json:"max_switch,omitempty"`
	Preempt   string         `json:"preempt,omitempty"` // "locks": under sched "all", every lock acquisition is a preemption point
	NoMerge   bool           `json:"no_merge,omitempty"`
	MapOrder  string         `json:"map_order,omitempty"`
	Params    map[string]int `json:"params,omitempty"`
	NoNative  bool           `json:"no_native,omitempty"` // harness cannot be run natively (goroutines / virtual time)
	Twin      string         `json:"twin,omitempty"`      // vacuity twin: this label MUST be reported violated
	Reach     []string       `json:"reach,omitempty"`
	MaxPaths  int            `json:"max_paths,omitempty"`
	Events    bool           `json:"events,omitempty"`
	Witnesses int            `json:"witnesses,omitempty"`
	MaxWallS  int            `json:"max_wall_s,omitempty"`
}

type Region struct {
	ID   string
	Term *Term
}

// Violation is a failed verification condition together with the solver's witness.
type Violation struct {
	Kind    string   `json:"kind"` // assert | panic | deadlock | unwind | leak
	Label   string   `json:"label"`
	Fn      string   `json:"fn"`
	Status  string   `json:"status"` // sat | unknown
	ND      []uint64 `json:"nd"`
	Widths  []int    `json:"widths"`
	Finding string   `json:"finding,omitempty"`
	Trace   []string `json:"trace,omitempty"`
	Count   int      `json:"count"`
}

// Witness is a completed path with a concrete input that drives it, used to validate the encoding natively.
type Witness struct {
	ND      []uint64 `json:"nd"`
	Widths  []int    `json:"widths"`
	Obs     []uint64 `json:"obs"`
	Fails   []string `json:"fails"`
	PCTerms int      `json:"pc_terms"`
	Reached []string `json:"reached,omitempty"`
}

type Engine struct {
	prog     *ssa.Program
	sol      *Solver
	globals  map[*ssa.Global]int
	inited   map[*ssa.Package]bool
	initMode int
	errType  types.Type
	pureMemo map[*ssa.Function]int
	cfg      EntryCfg
	stubs    map[string]string
	kf       []KnownFinding

	// config
	noMerge      bool
	allocMax     int
	schedAll     bool
	preemptLocks bool
	maxSwitch    int
	unwind       int

	// stats
	paths, instrs, forks, merges, proved, unsupported, bigAlloc, approxEq, deadlocks int
	obligations, unknowns, unwindHits, assumeCut, modelHits                          int
	asserted                                                                         map[string]int
	aborts                                                                           map[string]int
	viol                                                                             map[string]*Violation // new violations by kind|label
	known                                                                            map[string]*Violation // known findings seen, by finding id
	funcs                                                                            map[string]bool
	reach                                                                            map[string]bool
	ndVars                                                                           map[string]*Term
	witnesses                                                                        []*Witness
	evLogs                                                                           [][]string
	curSt                                                                            *State
	pendingEq                                                                        *Term
	pendingKey                                                                       string
	pendingSplit                                                                     []*State
	initNotes                                                                        []string
	stopped                                                                          bool
	deadline                                                                         time.Time
}

// ---------------- driver

// drive explores all states in work. If barrierOut != nil, states whose barrier frame
// returned are collected there instead of continuing.
func (e *Engine) drive(work []*State, barrierOut *[]*State) {
	for len(work) > 0 {
		st := work[len(work)-1]
		work = work[:len(work)-1]
		if e.cfg.MaxPaths > 0 && e.paths >= e.cfg.MaxPaths {
			e.stopped = true
			return
		}
		if e.stopped || (!e.deadline.IsZero() && e.instrs&1023 == 0 && time.Now().After(e.deadline)) {
			e.stopped = true
			return
		}
		succ := e.step(st, barrierOut)
		for i := len(succ) - 1; i >= 0; i-- {
			work = append(work, succ[i])
		}
	}
}

// completePath is called when the harness goroutine returns: counts the path and, for a sample of paths,
// asks the solver for a concrete input that drives it (used for native validation of the encoding).
func (e *Engine) completePath(st *State) {
	if e.initMode > 0 {
		return
	}
	e.paths++
	if e.cfg.Events && len(st.events) > 0 {
		e.evLogs = append(e.evLogs, append([]string(nil), st.events...))
	}
	want := e.cfg.Witnesses
	if want == 0 {
		want = 6
	}
	if len(e.witnesses) >= want && !(e.paths%17 == 0 && len(e.witnesses) < 4*want) {
		return
	}
	terms := append([]*Term(nil), st.vars...)
	terms = append(terms, st.obs...)
	for _, a := range st.asserts {
		terms = append(terms, a.cond)
	}
	res, m := e.sol.Check(append(append([]*Term(nil), st.pc...), B(true)), terms)
	if res != "sat" {
		return
	}
	val := func(t *Term) uint64 {
		if t.IsConst() {
			return t.Val
		}
		return m[e.sol.pr.name(t)]
	}
	w := &Witness{PCTerms: len(st.pc), Reached: st.reached}
	w.ND, w.Widths = ndVector(st, m)
	for _, o := range st.obs {
		w.Obs = append(w.Obs, val(o))
	}
	for _, a := range st.asserts {
		if val(a.cond) == 0 {
			w.Fails = append(w.Fails, a.label)
		}
	}
	e.witnesses = append(e.witnesses, w)
}

func (e *Engine) abort(st *State, why string) []*State {
	e.unsupported++
	st.aborted = why
	if len(why) > 200 {
		why = why[:200]
	}
	e.aborts[why]++
	return nil
}

func (e *Engine) check(st *State, c *Term, model bool) (string, map[string]uint64) {
	var want []*Term
	if model {
		want = st.vars
	}
	return e.sol.Check(append(append([]*Term(nil), st.pc...), c), want)
}

func (e *Engine) feasible(st *State, c *Term) bool {
	if c.True() {
		return true
	}
	if c.False() {
		return false
	}
	if st.model != nil && evalTerm(c, st.model) != 0 {
		e.modelHits++
		return true
	}
	r, m := e.check(st, c, true)
	if r == "sat" && m != nil {
		st.model = m
	}
	return r != "unsat"
}

// assume appends c to the path condition, keeping the cached model only if it still satisfies the path.
func (st *State) assume(c *Term) {
	if c.True() {
		return
	}
	st.pc = append(st.pc, c)
	if st.model != nil && evalTerm(c, st.model) == 0 {
		st.model = nil
	}
}

func ndVector(st *State, m map[string]uint64) ([]uint64, []int) {
	nd := make([]uint64, len(st.vars))
	ws := make([]int, len(st.vars))
	for i, v := range st.vars {
		nd[i] = m[v.Name]
		ws[i] = v.W
	}
	return nd, ws
}

func globMatch(pat, s string) bool {
	if pat == "" || pat == "*" {
		return true
	}
	parts := strings.Split(pat, "*")
	if len(parts) == 1 {
		return pat == s
	}
	if !strings.HasPrefix(s, parts[0]) {
		return false
	}
	s = s[len(parts[0]):]
	for i := 1; i < len(parts)-1; i++ {
		j := strings.Index(s, parts[i])
		if j < 0 {
			return false
		}
		s = s[j+len(parts[i]):]
	}
	return strings.HasSuffix(s, parts[len(parts)-1])
}

// activeRegions: regions registered on this path by vKnown whose finding is listed (known:) for a label pattern matching label.
func (e *Engine) activeRegions(st *State, label string) []Region {
	var out []Region
	for _, k := range e.kf {
		if k.Fixed || !globMatch(k.Label, label) {
			continue
		}
		if k.Harness != "" && !globMatch(k.Harness, e.cfg.Fn) {
			continue
		}
		if t, ok := st.regions[k.ID]; ok {
			out = append(out, Region{k.ID, t})
		}
	}
	return out
}

func (e *Engine) record(st *State, kind, label, status string, m map[string]uint64, finding string) {
	nd, ws := ndVector(st, m)
	fn := ""
	if g := st.g(); g != nil && len(g.frames) > 0 {
		fn = g.top().fn.String()
	}
	v := &Violation{Kind: kind, Label: label, Fn: fn, Status: status, ND: nd, Widths: ws, Finding: finding, Count: 1}
	if len(st.trace) > 0 {
		v.Trace = append([]string(nil), st.trace...)
	}
	if finding != "" {
		if old := e.known[finding]; old != nil {
			old.Count++
			return
		}
		e.known[finding] = v
		return
	}
	key := kind + "|" + label
	if old := e.viol[key]; old != nil {
		old.Count++
		if old.Status != "sat" && status == "sat" {
			v.Count = old.Count
			e.viol[key] = v
		}
		return
	}
	e.viol[key] = v
}

// vc discharges one verification condition: "bad is unsatisfiable under the path condition", outside the
// regions of listed known findings. It returns whether execution may continue under ¬bad (and asserts it).
func (e *Engine) vc(st *State, kind, label string, bad *Term) bool {
	e.obligations++
	if bad.False() {
		e.proved++
		return true
	}
	regs := e.activeRegions(st, label)
	q := bad
	for _, r := range regs {
		q = And(q, Not(r.Term))
	}
	ok := true
	if !q.False() {
		res, m := e.check(st, q, true)
		switch res {
		case "unsat":
		case "sat":
			ok = false
			e.record(st, kind, label, "sat", m, "")
		default:
			ok = false
			e.unknowns++
			e.record(st, kind, label, "unknown", nil, "")
		}
	}
	for _, r := range regs {
		c := And(bad, r.Term)
		if c.False() {
			continue
		}
		res, m := e.check(st, c, true)
		switch res {
		case "sat":
			e.record(st, kind, label, "sat", m, r.ID)
		case "unsat":
		default:
			e.unknowns++
		}
	}
	if ok {
		e.proved++
	}
	if bad.True() {
		return false
	}
	nb := Not(bad)
	if !e.feasible(st, nb) {
		return false
	}
	st.assume(nb)
	return true
}

// panicVC: a definite or conditional run-time panic at the current instruction.
func (e *Engine) panicVC(st *State, what string, bad *Term) bool {
	return e.vc(st, "panic", what, bad)
}

// enumValues enumerates the feasible values of t under the path condition (at most limit of them) by splitting the
// unsigned range at every model value: n values cost at most 2n+1 small queries, none with a growing exclusion list.
func (e *Engine) enumValues(st *State, t *Term, limit int) (vals []uint64, complete bool) {
	if t.IsConst() {
		return []uint64{t.Val}, true
	}
	maxV := ^uint64(0)
	if t.W < 64 {
		maxV = (uint64(1) << uint(t.W)) - 1
	}
	type rng struct{ lo, hi uint64 }
	work := []rng{{0, maxV}}
	complete = true
	for len(work) > 0 {
		r := work[len(work)-1]
		work = work[:len(work)-1]
		if len(vals) >= limit || (!e.deadline.IsZero() && time.Now().After(e.deadline)) {
			// is anything left in the remaining ranges?
			pcs := append([]*Term(nil), st.pc...)
			res, _ := e.sol.Check(append(pcs, Cmp("bvuge", t, C(r.lo, t.W)), Cmp("bvule", t, C(r.hi, t.W))), nil)
			if res != "unsat" {
				complete = false
				if len(vals) >= limit {
					continue
				}
				e.stopped = true
				return vals, false
			}
			continue
		}
		pcs := append([]*Term(nil), st.pc...)
		if r.lo > 0 {
			pcs = append(pcs, Cmp("bvuge", t, C(r.lo, t.W)))
		}
		if r.hi < maxV {
			pcs = append(pcs, Cmp("bvule", t, C(r.hi, t.W)))
		}
		res, m := e.sol.Check(pcs, []*Term{t})
		if res == "unsat" {
			continue
		}
		if res != "sat" {
			e.unknowns++
			return vals, false
		}
		v, ok := m[e.sol.pr.name(t)]
		if !ok || v < r.lo || v > r.hi {
			e.unknowns++
			return vals, false
		}
		vals = append(vals, v)
		if v > r.lo {
			work = append(work, rng{r.lo, v - 1})
		}
		if v < r.hi {
			work = append(work, rng{v + 1, r.hi})
		}
	}
	return vals, complete
}

// concretize forks st so that SSA value v (currently the symbolic term t) is a constant in each successor.
// The current instruction is re-executed in every successor.
func (e *Engine) concretize(st *State, v ssa.Value, t *Term, limit int, what string) []*State {
	vals, complete := e.enumValues(st, t, limit)
	if !complete {
		e.bigAlloc++
		e.aborts["value range not fully enumerated ("+what+")"]++
		e.unsupported++
	}
	sort.Slice(vals, func(i, j int) bool { return vals[i] < vals[j] })
	var out []*State
	for i, val := range vals {
		s2 := st
		if i < len(vals)-1 {
			s2 = st.clone()
		}
		c := C(val, t.W)
		s2.assume(Cmp("=", t, c))
		s2.g().top().locals[v] = c
		out = append(out, s2)
	}
	if len(vals) > 1 {
		e.forks += len(vals) - 1
	}
	return out
}

// fork on a symbolic boolean; returns states for true and false side (nil if infeasible).
// The side taken by the state's cached model is feasible without a query (model reuse).
func (e *Engine) forkOn(st *State, c *Term) (t, f *State) {
	if c.True() {
		return st, nil
	}
	if c.False() {
		return nil, st
	}
	if st.model == nil {
		// acquire a model of the path condition
		r, m := e.check(st, B(true), true)
		if r == "sat" {
			st.model = m
		}
	}
	if st.model != nil {
		tv := evalTerm(c, st.model) != 0
		e.modelHits++
		other := c
		if tv {
			other = Not(c)
		}
		r, m := e.check(st, other, true)
		if r == "unsat" {
			if tv {
				st.assume(c)
				return st, nil
			}
			st.assume(Not(c))
			return nil, st
		}
		e.forks++
		s2 := st.clone()
		s2.model = m // nil when the solver answered unknown
		if tv {
			st.pc = append(st.pc, c)
			s2.pc = append(s2.pc, Not(c))
			return st, s2
		}
		st.pc = append(st.pc, Not(c))
		s2.pc = append(s2.pc, c)
		return s2, st
	}
	ft := e.feasible(st, c)
	ff := true
	if ft {
		ff = e.feasible(st, Not(c))
	}
	switch {
	case ft && ff:
		e.forks++
		s2 := st.clone()
		s2.model = nil
		st.model = nil
		st.pc = append(st.pc, c)
		s2.pc = append(s2.pc, Not(c))
		return st, s2
	case ft:
		st.assume(c)
		return st, nil
	default:
		st.assume(Not(c))
		return nil, st
	}
}

// ---------------- zero values / constants

func (e *Engine) zero(t types.Type) Value {
	switch u := t.Underlying().(type) {
	case *types.Basic:
		w, _ := width(t)
		if w == 0 {
			return B(false)
		}
		if w > 0 {
			return C(0, w)
		}
		if u.Info()&types.IsString != 0 {
			return ""
		}
		if u.Kind() == types.UnsafePointer {
			return Ptr{}
		}
		if u.Kind() == types.UntypedNil {
			return Ptr{}
		}
		return Opaque{"basic " + u.String()}
	case *types.Pointer:
		return Ptr{}
	case *types.Struct:
		s := make(StructV, u.NumFields())
		for i := range s {
			s[i] = e.zero(u.Field(i).Type())
		}
		return s
	case *types.Array:
		s := make(StructV, int(u.Len()))
		for i := range s {
			s[i] = e.zero(u.Elem())
		}
		return s
	case *types.Slice:
		return SliceV{isNil: true}
	case *types.Interface:
		return IfaceV{}
	case *types.Map, *types.Chan, *types.Signature:
		return Ptr{}
	case *types.Tuple:
		return nil
	}
	panic(fmt.Sprintf("zero: %v", t))
}

func (e *Engine) constVal(c *ssa.Const) Value {
	t := c.Type()
	if c.Value == nil {
		return e.zero(t)
	}
	w, _ := width(t)
	switch {
	case w == 0:
		return B(constant.BoolVal(c.Value))
	case w > 0:
		if u, ok := constant.Uint64Val(c.Value); ok {
			return C(u, w)
		}
		i, _ := constant.Int64Val(c.Value)
		return C(uint64(i), w)
	}
	if c.Value.Kind() == constant.String {
		return constant.StringVal(c.Value)
	}
	if c.Value.Kind() == constant.Float {
		f, _ := constant.Float64Val(c.Value)
		return Opaque{fmt.Sprintf("float %v", f)}
	}
	panic("const " + c.String())
}

func (e *Engine) globalPtr(st *State, g *ssa.Global) Ptr {
	id, ok := e.globals[g]
	if !ok {
		id = 1000000 + len(e.globals)
		e.globals[g] = id
	}
	if _, ok := st.heap[id]; !ok {
		st.heap[id] = &Obj{e.zero(g.Type().(*types.Pointer).Elem())}
		if g.Pkg != nil && g.Pkg.Pkg.Path() == "io" && (g.Name() == "EOF" || g.Name() == "ErrUnexpectedEOF") {
			st.heap[id].v = IfaceV{e.errType, &ErrObj{msg: "io." + g.Name()}}
		}
	}
	return Ptr{obj: id}
}

func (e *Engine) get(st *State, fr *Frame, v ssa.Value) Value {
	switch x := v.(type) {
	case *ssa.Const:
		return e.constVal(x)
	case *ssa.Function:
		return x
	case *ssa.Global:
		return e.globalPtr(st, x)
	case *ssa.Builtin:
		return x
	}
	r, ok := fr.locals[v]
	if !ok {
		panic("unbound " + v.Name() + " in " + fr.fn.String())
	}
	return r
}

// ---------------- one step: run current goroutine until something multi-outcome happens

func (e *Engine) pushFrame(st *State, g *G, fn *ssa.Function, args []Value, free []Value, retTo ssa.Value) *Frame {
	if fn.Blocks == nil {
		panic("no body: " + fn.String())
	}
	e.funcs[fn.String()] = true
	fr := &Frame{fn: fn, block: fn.Blocks[0], locals: map[ssa.Value]Value{}, visited: map[*ssa.BasicBlock]int{}, mark: st.next, retTo: retTo}
	for i, p := range fn.Params {
		fr.locals[p] = args[i]
	}
	for i, fv := range fn.FreeVars {
		fr.locals[fv] = free[i]
	}
	g.frames = append(g.frames, fr)
	return fr
}

// enterBlock handles phis; returns false if unwind bound exceeded
func (e *Engine) enterBlock(st *State, fr *Frame, b *ssa.BasicBlock) bool {
	prev := fr.block
	fr.prev = prev
	fr.block = b
	fr.visited[b]++
	if fr.visited[b] > e.unwind {
		e.unwindHits++
		return false
	}
	var vals []Value
	n := 0
	for _, in := range b.Instrs {
		p, ok := in.(*ssa.Phi)
		if !ok {
			break
		}
		for i, pb := range b.Preds {
			if pb == prev {
				vals = append(vals, e.get(st, fr, p.Edges[i]))
				break
			}
		}
		n++
	}
	for i := 0; i < n; i++ {
		fr.locals[b.Instrs[i].(*ssa.Phi)] = vals[i]
	}
	fr.idx = n
	return true
}

func (e *Engine) step(st *State, barrierOut *[]*State) []*State {
	for {
		g := st.g()
		if g.status != gRunnable {
			return e.schedule(st)
		}
		if len(g.frames) == 0 {
			panic("runnable goroutine without frames")
		}
		fr := g.top()
		if fr.native != nil {
			return e.nativeStep(st, g, fr)
		}
		if fr.idx >= len(fr.block.Instrs) {
			panic("fell off block in " + fr.fn.String())
		}
		in := fr.block.Instrs[fr.idx]
		e.instrs++
		switch x := in.(type) {
		case *ssa.If:
			c, ok := e.get(st, fr, x.Cond).(*Term)
			if !ok {
				return e.abort(st, "branch on opaque value in "+fr.fn.String())
			}
			tb, fb := fr.block.Succs[0], fr.block.Succs[1]
			t, f := e.forkOn(st, c)
			var out []*State
			if t != nil {
				if !e.enterBlock(t, t.g().top(), tb) {
					e.abort(t, "unwind bound in "+fr.fn.String())
				} else {
					out = append(out, t)
				}
			}
			if f != nil {
				if !e.enterBlock(f, f.g().top(), fb) {
					e.abort(f, "unwind bound in "+fr.fn.String())
				} else {
					out = append(out, f)
				}
			}
			if len(out) == 1 && out[0] == st {
				continue
			}
			return out
		case *ssa.Jump:
			if !e.enterBlock(st, fr, fr.block.Succs[0]) {
				return e.abort(st, "unwind bound in "+fr.fn.String())
			}
			continue
		case *ssa.Return:
			var ret Value
			switch len(x.Results) {
			case 0:
			case 1:
				ret = e.get(st, fr, x.Results[0])
			default:
				t := make(TupleV, len(x.Results))
				for i, r := range x.Results {
					t[i] = e.get(st, fr, r)
				}
				ret = t
			}
			if len(fr.defers) > 0 {
				return e.abort(st, "pending defers at return in "+fr.fn.String())
			}
			if out, done := e.doReturn(st, g, fr, ret, barrierOut); done {
				return out
			}
			continue
		case *ssa.RunDefers:
			if len(fr.defers) > 0 {
				d := fr.defers[len(fr.defers)-1]
				fr.defers = fr.defers[:len(fr.defers)-1]
				// run deferred call; stay on RunDefers until empty
				succ, cont := e.invokeValue(st, g, fr, d.fn, d.args, nil, true)
				if cont {
					continue
				}
				return succ
			}
			fr.idx++
			continue
		case *ssa.Panic:
			if e.initMode > 0 {
				// package initialisers that rely on unsafe tricks (net/convert.go endianness probe): treat as returning
				if out, done := e.doReturn(st, g, fr, nil, barrierOut); done {
					return out
				}
				continue
			}
			e.panicVC(st, "explicit panic in "+fr.fn.String(), B(true))
			return nil
		case ssa.CallInstruction: // Call, Go, Defer
			succ, cont := e.doCall(st, g, fr, x)
			if cont {
				continue
			}
			return succ
		case *ssa.Select:
			succ, cont := e.doSelect(st, g, fr, x)
			if cont {
				continue
			}
			return succ
		case *ssa.Send:
			succ, cont := e.doSend(st, g, fr, x)
			if cont {
				continue
			}
			return succ
		case *ssa.MakeSlice:
			n, ok := e.get(st, fr, x.Len).(*Term)
			if !ok {
				return e.abort(st, "make with opaque len")
			}
			if !n.IsConst() {
				lim := uint64(e.allocMax + 1)
				big := Cmp("bvugt", n, C(lim, n.W))
				if al, ok := e.cfg.Params["alloc_limit"]; ok {
					n64 := n
					if n.W < 64 {
						if _, signed := width(x.Len.Type()); signed {
							n64 = Sext(n, 64)
						} else {
							n64 = Zext(n, 64)
						}
					}
					e.vc(st, "alloc", "allocation above alloc_limit in "+fr.fn.String(), Cmp("bvugt", n64, C(uint64(al), 64)))
				}
				if e.feasible(st, big) {
					// lengths above alloc_max+1 are represented by alloc_max+1 (stated in the evidence)
					e.bigAlloc++
					small := Not(big)
					if !e.feasible(st, small) {
						// every feasible length is above alloc_max: follow one representative chosen by the solver
						vals, _ := e.enumValues(st, n, 1)
						if len(vals) != 1 || vals[0] > 1<<20 {
							return e.abort(st, "make length always above alloc_max in "+fr.fn.String())
						}
						c := C(vals[0], n.W)
						st.assume(Cmp("=", n, c))
						fr.locals[x.Len] = c
						continue
					}
					st.assume(small)
				}
				return e.concretize(st, x.Len, n, e.allocMax+3, "make length in "+fr.fn.String())
			}
			if al, ok := e.cfg.Params["alloc_limit"]; ok && int64(n.Val) > int64(al) {
				e.vc(st, "alloc", "allocation above alloc_limit in "+fr.fn.String(), B(true))
			}
			if int64(n.Val) < 0 || n.Val > 1<<24 {
				e.panicVC(st, "makeslice: len out of range in "+fr.fn.String(), B(true))
				return nil
			}
			capN := int(n.Val)
			if cv, ok := e.get(st, fr, x.Cap).(*Term); ok && cv.IsConst() && int(cv.Val) > capN {
				capN = int(cv.Val)
			}
			et := x.Type().Underlying().(*types.Slice).Elem()
			elems := make(StructV, capN)
			z := e.zero(et)
			for i := range elems {
				elems[i] = z
			}
			p := st.alloc(elems)
			fr.locals[x] = SliceV{arr: p.obj, n: int(n.Val), cap: capN}
			fr.idx++
			continue
		case *ssa.UnOp:
			if x.Op == token.ARROW {
				succ, cont := e.doRecv(st, g, fr, x)
				if cont {
					continue
				}
				return succ
			}
			e.curSt, e.pendingEq = st, nil
			snapW := st.writes
			why := e.simple(st, fr, in)
			if e.pendingEq != nil && st.writes == snapW {
				// undecided symbolic equality (map key / interface compare): fork and re-execute
				c, key := e.pendingEq, e.pendingKey
				e.pendingEq = nil
				delete(fr.locals, valueOf(in))
				t, f := e.forkOn(st, c)
				var out []*State
				if t != nil {
					t.decided[key] = true
					out = append(out, t)
				}
				if f != nil {
					f.decided[key] = false
					out = append(out, f)
				}
				return out
			}
			if why != "" {
				if why == "SPLIT" {
					return e.pendingSplit
				}
				if strings.HasPrefix(why, "VC:") {
					return nil
				}
				return e.abort(st, why)
			}
			fr.idx++
			continue
		default:
			e.curSt, e.pendingEq = st, nil
			snapW := st.writes
			why := e.simple(st, fr, in)
			if e.pendingEq != nil && st.writes == snapW {
				// undecided symbolic equality (map key / interface compare): fork and re-execute
				c, key := e.pendingEq, e.pendingKey
				e.pendingEq = nil
				delete(fr.locals, valueOf(in))
				t, f := e.forkOn(st, c)
				var out []*State
				if t != nil {
					t.decided[key] = true
					out = append(out, t)
				}
				if f != nil {
					f.decided[key] = false
					out = append(out, f)
				}
				return out
			}
			if why != "" {
				if why == "SPLIT" {
					return e.pendingSplit
				}
				if strings.HasPrefix(why, "VC:") {
					return nil
				}
				return e.abort(st, why)
			}
			fr.idx++
			continue
		}
	}
}

// doReturn pops the frame. done=true means the step should return `out`.
func (e *Engine) doReturn(st *State, g *G, fr *Frame, ret Value, barrierOut *[]*State) (out []*State, done bool) {
	g.frames = g.frames[:len(g.frames)-1]
	if fr.barrier {
		g.retval = ret
		if barrierOut == nil {
			panic("barrier without collector")
		}
		*barrierOut = append(*barrierOut, st)
		return nil, true
	}
	if len(g.frames) == 0 {
		g.status = gDone
		g.retval = ret
		if g.id == 0 {
			e.completePath(st)
			return nil, true
		}
		return e.schedule(st), true
	}
	caller := g.top()
	if caller.native != nil {
		caller.native.ret = ret
		caller.native.hasRet = true
		return nil, false
	}
	cin := caller.block.Instrs[caller.idx]
	if _, isRD := cin.(*ssa.RunDefers); isRD {
		return nil, false // stay on RunDefers
	}
	if v, ok := cin.(ssa.Value); ok {
		caller.locals[v] = ret
	}
	caller.idx++
	return nil, false
}

// ---------------- straight-line instructions. returns "" if ok, else reason (VC: prefix means path ended by violation)

func (e *Engine) simple(st *State, fr *Frame, in ssa.Instruction) string {
	switch x := in.(type) {
	case *ssa.Alloc:
		fr.locals[x] = st.alloc(e.zero(x.Type().(*types.Pointer).Elem()))
	case *ssa.FieldAddr:
		p, ok := e.get(st, fr, x.X).(Ptr)
		if !ok {
			return "FieldAddr on non-pointer"
		}
		if p.obj == 0 {
			e.panicVC(st, "nil dereference (field address) in "+fr.fn.String(), B(true))
			return "VC:"
		}
		fr.locals[x] = Ptr{p.obj, append(append([]int(nil), p.path...), x.Field)}
	case *ssa.Field:
		sv, ok := e.get(st, fr, x.X).(StructV)
		if !ok {
			return "Field on non-struct"
		}
		fr.locals[x] = sv[x.Field]
	case *ssa.IndexAddr:
		i, ok := e.get(st, fr, x.Index).(*Term)
		if !ok {
			return "opaque index in " + fr.fn.String()
		}
		n := -1
		base := e.get(st, fr, x.X)
		switch b := base.(type) {
		case Ptr:
			if b.obj == 0 {
				e.panicVC(st, "nil dereference in "+fr.fn.String(), B(true))
				return "VC:"
			}
			n = len(st.load(b).(StructV))
		case SliceV:
			n = b.n
		default:
			return "IndexAddr on ?"
		}
		if !i.IsConst() {
			if !e.panicVC(st, "index out of range in "+fr.fn.String(), Cmp("bvuge", i, C(uint64(n), i.W))) {
				return "VC:"
			}
			e.pendingSplit = e.concretize(st, x.Index, i, n+1, "index in "+fr.fn.String())
			return "SPLIT"
		}
		if int64(i.Val) < 0 || int(i.Val) >= n {
			e.panicVC(st, "index out of range in "+fr.fn.String(), B(true))
			return "VC:"
		}
		switch b := base.(type) {
		case Ptr:
			fr.locals[x] = Ptr{b.obj, append(append([]int(nil), b.path...), int(i.Val))}
		case SliceV:
			fr.locals[x] = Ptr{b.arr, append(decPath(b.apath), b.off+int(i.Val))}
		}
	case *ssa.Index:
		i, ok := e.get(st, fr, x.Index).(*Term)
		if !ok {
			return "opaque index"
		}
		n := -1
		base := e.get(st, fr, x.X)
		switch b := base.(type) {
		case StructV:
			n = len(b)
		case string:
			n = len(b)
		default:
			return "Index on ?"
		}
		if !i.IsConst() {
			if !e.panicVC(st, "index out of range in "+fr.fn.String(), Cmp("bvuge", i, C(uint64(n), i.W))) {
				return "VC:"
			}
			if sv, isArr := base.(StructV); isArr && allTerms(sv) && n <= 64 {
				// ite-chain read of a scalar array
				var r *Term = sv[n-1].(*Term)
				for k := n - 2; k >= 0; k-- {
					r = Ite(Cmp("=", i, C(uint64(k), i.W)), sv[k].(*Term), r)
				}
				fr.locals[x] = r
				break
			}
			e.pendingSplit = e.concretize(st, x.Index, i, n+1, "index in "+fr.fn.String())
			return "SPLIT"
		}
		if int64(i.Val) < 0 || int(i.Val) >= n {
			e.panicVC(st, "index out of range in "+fr.fn.String(), B(true))
			return "VC:"
		}
		switch b := base.(type) {
		case StructV:
			fr.locals[x] = b[int(i.Val)]
		case string:
			fr.locals[x] = C(uint64(b[i.Val]), 8)
		}
	case *ssa.UnOp:
		v := e.get(st, fr, x.X)
		switch x.Op {
		case token.MUL:
			p, ok := v.(Ptr)
			if !ok {
				return "load through non-pointer"
			}
			if p.obj == 0 {
				e.panicVC(st, "nil dereference (load) in "+fr.fn.String(), B(true))
				return "VC:"
			}
			fr.locals[x] = st.load(p)
			e.logEv(st, p, "rd")
		case token.NOT:
			fr.locals[x] = Not(v.(*Term))
		case token.SUB:
			fr.locals[x] = BvNeg(v.(*Term))
		case token.XOR:
			fr.locals[x] = BvNot(v.(*Term))
		case token.ARROW:
			return "recv handled elsewhere"
		default:
			return "unop " + x.Op.String()
		}
	case *ssa.Store:
		p, ok := e.get(st, fr, x.Addr).(Ptr)
		if !ok {
			return "store through non-pointer"
		}
		if p.obj == 0 {
			e.panicVC(st, "nil dereference (store) in "+fr.fn.String(), B(true))
			return "VC:"
		}
		st.store(p, e.get(st, fr, x.Val))
		e.logEv(st, p, "wr")
		if p.obj <= fr.mark {
			st.writes++
		}
	case *ssa.BinOp:
		r, why := e.binop(x, e.get(st, fr, x.X), e.get(st, fr, x.Y))
		if why != "" {
			return why
		}
		fr.locals[x] = r
	case *ssa.Convert:
		if sv, isS := e.get(st, fr, x.X).(string); isS {
			if _, toSl := x.Type().Underlying().(*types.Slice); toSl {
				elems := make(StructV, len(sv))
				for i := range elems {
					elems[i] = C(uint64(sv[i]), 8)
				}
				p := st.alloc(elems)
				fr.locals[x] = SliceV{arr: p.obj, n: len(sv), cap: len(sv)}
				break
			}
		}
		r, why := e.convert(e.get(st, fr, x.X), x.X.Type(), x.Type())
		if why != "" {
			return why
		}
		fr.locals[x] = r
	case *ssa.ChangeType:
		fr.locals[x] = e.get(st, fr, x.X)
	case *ssa.ChangeInterface:
		fr.locals[x] = e.get(st, fr, x.X)
	case *ssa.MakeInterface:
		fr.locals[x] = IfaceV{x.X.Type(), e.get(st, fr, x.X)}
	case *ssa.Extract:
		tv, ok := e.get(st, fr, x.Tuple).(TupleV)
		if !ok {
			return "extract from non-tuple (opaque call result?)"
		}
		fr.locals[x] = tv[x.Index]
	case *ssa.Slice:
		return e.sliceInstr(st, fr, x)
	case *ssa.MakeClosure:
		fv := make([]Value, len(x.Bindings))
		for i, b := range x.Bindings {
			fv[i] = e.get(st, fr, b)
		}
		fr.locals[x] = ClosureV{x.Fn.(*ssa.Function), fv}
	case *ssa.MakeMap:
		fr.locals[x] = st.alloc(&MapModel{})
	case *ssa.MakeChan:
		n, _ := e.get(st, fr, x.Size).(*Term)
		c := 0
		if n != nil && n.IsConst() {
			c = int(n.Val)
		}
		fr.locals[x] = st.alloc(&ChanModel{cap: c})
	case *ssa.MapUpdate:
		mp := e.get(st, fr, x.Map).(Ptr)
		if mp.obj == 0 {
			e.panicVC(st, "assignment to entry in nil map in "+fr.fn.String(), B(true))
			return "VC:"
		}
		mm := st.heap[mp.obj].v.(*MapModel)
		k, v := e.get(st, fr, x.Key), e.get(st, fr, x.Value)
		nm := &MapModel{append([]Value(nil), mm.keys...), append([]Value(nil), mm.vals...)}
		found := false
		for i := range nm.keys {
			if e.concreteEq(nm.keys[i], k) {
				nm.vals[i] = v
				found = true
			}
		}
		if e.pendingEq != nil {
			return ""
		}
		if !found {
			nm.keys = append(nm.keys, k)
			nm.vals = append(nm.vals, v)
		}
		st.heap[mp.obj].v = nm
		st.writes++
	case *ssa.Lookup:
		mp, ok := e.get(st, fr, x.X).(Ptr)
		if !ok {
			return "lookup on string"
		}
		var res Value = e.zero(x.X.Type().Underlying().(*types.Map).Elem())
		okv := B(false)
		if mp.obj != 0 {
			mm := st.heap[mp.obj].v.(*MapModel)
			k := e.get(st, fr, x.Index)
			for i := range mm.keys {
				if e.concreteEq(mm.keys[i], k) {
					res, okv = mm.vals[i], B(true)
				}
			}
		}
		if e.pendingEq != nil {
			return ""
		}
		if x.CommaOk {
			fr.locals[x] = TupleV{res, okv}
		} else {
			fr.locals[x] = res
		}
	case *ssa.Range:
		mp, ok := e.get(st, fr, x.X).(Ptr)
		if !ok {
			return "range over string"
		}
		it := &MapIter{}
		if mp.obj != 0 {
			mm := st.heap[mp.obj].v.(*MapModel)
			it.keys, it.vals = mm.keys, mm.vals
		}
		fr.locals[x] = st.alloc(it)
	case *ssa.Next:
		ip := e.get(st, fr, x.Iter).(Ptr)
		it := st.heap[ip.obj].v.(*MapIter)
		mt := x.Iter.(*ssa.Range).X.Type().Underlying().(*types.Map)
		if it.pos >= len(it.keys) {
			fr.locals[x] = TupleV{B(false), e.zero(mt.Key()), e.zero(mt.Elem())}
		} else {
			fr.locals[x] = TupleV{B(true), it.keys[it.pos], it.vals[it.pos]}
			st.heap[ip.obj].v = &MapIter{it.keys, it.vals, it.pos + 1}
		}
	case *ssa.TypeAssert:
		iv, isI := e.get(st, fr, x.X).(IfaceV)
		if !isI {
			return "type assert on opaque"
		}
		ok := false
		if iv.t != nil {
			if types.IsInterface(x.AssertedType) {
				ok = types.Implements(iv.t, x.AssertedType.Underlying().(*types.Interface))
			} else {
				ok = types.Identical(iv.t, x.AssertedType)
			}
		}
		var res Value
		if ok {
			if types.IsInterface(x.AssertedType) {
				res = iv
			} else {
				res = iv.v
			}
		} else {
			res = e.zero(x.AssertedType)
		}
		if x.CommaOk {
			fr.locals[x] = TupleV{res, B(ok)}
		} else {
			if !ok {
				e.panicVC(st, fmt.Sprintf("failed type assertion to %v (dynamic type %v) in %s", x.AssertedType, iv.t, fr.fn), B(true))
				return "VC:"
			}
			fr.locals[x] = res
		}
	case *ssa.DebugRef:
	default:
		return fmt.Sprintf("unsupported instruction %T in %s", in, fr.fn)
	}
	return ""
}

func allTerms(sv StructV) bool {
	if len(sv) == 0 {
		return false
	}
	w := -1
	for _, v := range sv {
		t, ok := v.(*Term)
		if !ok {
			return false
		}
		if w >= 0 && t.W != w {
			return false
		}
		w = t.W
	}
	return true
}

func (e *Engine) sliceInstr(st *State, fr *Frame, x *ssa.Slice) string {
	where := " in " + fr.fn.String()
	// capacity / length limits of the operand
	capN, lenN := -1, -1
	base := e.get(st, fr, x.X)
	switch b := base.(type) {
	case SliceV:
		capN, lenN = b.cap, b.n
	case Ptr:
		if b.obj == 0 {
			e.panicVC(st, "nil dereference"+where, B(true))
			return "VC:"
		}
		capN = len(st.load(b).(StructV))
		lenN = capN
	case string:
		capN, lenN = len(b), len(b)
	default:
		return "slice of ?" + where
	}
	var loT, hiT, maxT *Term
	// bounds may have any integer type: widen to 64 bits by signedness
	widen := func(v ssa.Value) (*Term, bool) {
		t, ok := e.get(st, fr, v).(*Term)
		if !ok {
			return nil, false
		}
		if t.W == 64 {
			return t, true
		}
		if _, signed := width(v.Type()); signed {
			return Sext(t, 64), true
		}
		return Zext(t, 64), true
	}
	if x.Low != nil {
		t, ok := widen(x.Low)
		if !ok {
			return "opaque slice bound" + where
		}
		loT = t
	} else {
		loT = C(0, 64)
	}
	if x.High != nil {
		t, ok := widen(x.High)
		if !ok {
			return "opaque slice bound" + where
		}
		hiT = t
	} else {
		hiT = C(uint64(lenN), 64)
	}
	if x.Max != nil {
		t, ok := widen(x.Max)
		if !ok {
			return "opaque slice bound" + where
		}
		maxT = t
	} else {
		maxT = C(uint64(capN), 64)
	}
	if !loT.IsConst() || !hiT.IsConst() || !maxT.IsConst() {
		limit := C(uint64(capN), 64)
		if _, isStr := base.(string); isStr {
			limit = C(uint64(lenN), 64)
		}
		okT := And(And(Cmp("bvsle", C(0, 64), loT), Cmp("bvsle", loT, hiT)), And(Cmp("bvsle", hiT, maxT), Cmp("bvsle", maxT, limit)))
		if !e.panicVC(st, "slice bounds out of range"+where, Not(okT)) {
			return "VC:"
		}
		raw := func(v ssa.Value) *Term { t, _ := e.get(st, fr, v).(*Term); return t }
		switch {
		case !hiT.IsConst():
			e.pendingSplit = e.concretize(st, x.High, raw(x.High), capN+2, "slice bound"+where)
		case !loT.IsConst():
			e.pendingSplit = e.concretize(st, x.Low, raw(x.Low), capN+2, "slice bound"+where)
		default:
			e.pendingSplit = e.concretize(st, x.Max, raw(x.Max), capN+2, "slice bound"+where)
		}
		return "SPLIT"
	}
	lo, hi, mx := int(int64(loT.Val)), int(int64(hiT.Val)), int(int64(maxT.Val))
	limit := capN
	if _, isStr := base.(string); isStr {
		limit = lenN
	}
	if lo < 0 || lo > hi || hi > mx || mx > limit {
		e.panicVC(st, "slice bounds out of range"+where, B(true))
		return "VC:"
	}
	switch b := base.(type) {
	case Ptr:
		fr.locals[x] = SliceV{arr: b.obj, off: lo, n: hi - lo, cap: mx - lo, apath: encPath(b.path)}
	case SliceV:
		fr.locals[x] = SliceV{arr: b.arr, off: b.off + lo, n: hi - lo, cap: mx - lo, isNil: b.isNil && hi == 0, apath: b.apath}
	case string:
		fr.locals[x] = b[lo:hi]
	}
	return ""
}

func valueOf(in ssa.Instruction) ssa.Value {
	if v, ok := in.(ssa.Value); ok {
		return v
	}
	return nil
}
