package main

import (
	"fmt"
	"go/types"

	"golang.org/x/tools/go/ssa"
)

// ---------- values (immutable trees)

type Value interface{}

type Ptr struct {
	obj  int
	path []int
}
type StructV []Value // structs and arrays
type TupleV []Value
type SliceV struct {
	arr, off, n, cap int
	isNil            bool
	apath            string // encoded path of the array inside object arr ("" = the object itself)
}

func encPath(p []int) string {
	if len(p) == 0 {
		return ""
	}
	return fmt.Sprint(p)
}
func decPath(s string) []int {
	if s == "" {
		return nil
	}
	var out []int
	n, in := 0, false
	for _, c := range s {
		if c >= '0' && c <= '9' {
			n = n*10 + int(c-'0')
			in = true
		} else if in {
			out = append(out, n)
			n, in = 0, false
		}
	}
	return out
}

func (s *State) arrOf(sl SliceV) StructV {
	return getPath(s.heap[sl.arr].v, decPath(sl.apath)).(StructV)
}
func (s *State) setArr(sl SliceV, v StructV) {
	o := s.heap[sl.arr]
	o.v = setPath(o.v, decPath(sl.apath), v)
}

type IfaceV struct {
	t types.Type
	v Value
}
type ClosureV struct {
	fn   *ssa.Function
	free []Value
}
type Opaque struct{ what string }

// SymStr is a string (or hash) built by formatting possibly symbolic values. Its text is never materialised;
// two SymStr are equal iff they were built the same way from equal ingredients (formatting and hashing are assumed
// injective — stated in the evidence).
type SymStr struct {
	kind  string
	parts []Value
}

// FloatV: float64 represented by an exact signed 64-bit integer term (prototype: only int->float->int, Min, Max, compare)
type FloatV struct{ t *Term }
type ErrObj struct {
	msg     string
	wrapped Value
}

// heap-resident models (treated as immutable; replaced on update)
type MapModel struct{ keys, vals []Value }
type MapIter struct {
	keys, vals []Value
	pos        int
}
type BufModel struct{ arr, off, n int }
type ChanModel struct {
	buf    []Value
	cap    int
	closed bool
	timer  bool
}
type MutexModel struct {
	owner   int // goroutine id+1 holding write lock, 0 none
	readers int
}
type WGModel struct{ n int }

type Obj struct{ v Value }

// ---------- frames / goroutines / state

type deferred struct {
	fn   Value
	args []Value
}

type Frame struct {
	fn      *ssa.Function
	block   *ssa.BasicBlock
	idx     int
	prev    *ssa.BasicBlock
	locals  map[ssa.Value]Value
	defers  []deferred
	visited map[*ssa.BasicBlock]int
	mark    int
	// native continuation frame (models that call back into interpreted code)
	native *Native
	// where to put the result in the caller
	retTo ssa.Value
	// set when this frame is a barrier for nested exploration
	barrier bool
}

type Native struct {
	kind   string
	i, j   int
	sl     SliceV
	fn     Value
	ret    Value
	hasRet bool
	phase  int
}

func (f *Frame) clone() *Frame {
	n := *f
	n.locals = make(map[ssa.Value]Value, len(f.locals))
	for k, v := range f.locals {
		n.locals[k] = v
	}
	n.visited = make(map[*ssa.BasicBlock]int, len(f.visited))
	for k, v := range f.visited {
		n.visited[k] = v
	}
	n.defers = append([]deferred(nil), f.defers...)
	if f.native != nil {
		nn := *f.native
		n.native = &nn
	}
	return &n
}

const (
	gRunnable = iota
	gBlocked
	gDone
)

type waitKind int

const (
	wNone waitKind = iota
	wSend
	wRecv
	wSelect
	wLock
	wRLock
	wWG
)

type G struct {
	id     int
	frames []*Frame
	status int
	wait   waitKind
	waitOn []int // heap ids (channels / mutex / wg)
	// pending send value / select instruction bookkeeping
	sendVal Value
	selIn   *ssa.Select
	retval  Value
	name    string
	name2   string
	yielded bool // the goroutine gave way at the lock acquisition it is about to re-execute (preempt: locks)
}

func (g *G) clone() *G {
	n := *g
	n.frames = make([]*Frame, len(g.frames))
	for i, f := range g.frames {
		n.frames[i] = f.clone()
	}
	n.waitOn = append([]int(nil), g.waitOn...)
	return &n
}

func (g *G) top() *Frame { return g.frames[len(g.frames)-1] }

type State struct {
	heap     map[int]*Obj
	next     int
	pc       []*Term
	vars     []*Term
	gs       []*G
	cur      int
	writes   int
	switches int
	clock    int64
	timers   []timerEnt
	trace    []string
	aborted  string
	locks    map[string]*MutexModel
	wgs      map[string]int
	settle   bool // main goroutine waits for quiescence of the others
	decided  map[string]bool
	events   []string
	shared   int
	model    map[string]uint64 // an assignment of the nd variables satisfying pc (nil if unknown)
	regions  map[string]*Term  // known-finding regions registered on this path (copy on write)
	obs      []*Term
	asserts  []assertRec
	reached  []string
}

type assertRec struct {
	label string
	cond  *Term
}

type timerEnt struct {
	ch       int
	deadline int64
	period   int64
	stopped  bool
}

func (s *State) clone() *State {
	n := &State{heap: make(map[int]*Obj, len(s.heap)), next: s.next, cur: s.cur, writes: s.writes, switches: s.switches, clock: s.clock}
	for k, v := range s.heap {
		n.heap[k] = &Obj{v.v}
	}
	n.pc = append([]*Term(nil), s.pc...)
	n.vars = append([]*Term(nil), s.vars...)
	n.gs = make([]*G, len(s.gs))
	for i, g := range s.gs {
		n.gs[i] = g.clone()
	}
	n.timers = append([]timerEnt(nil), s.timers...)
	n.settle = s.settle
	n.regions = s.regions
	n.model = s.model
	n.obs = append([]*Term(nil), s.obs...)
	n.asserts = append([]assertRec(nil), s.asserts...)
	n.reached = append([]string(nil), s.reached...)
	n.events = append([]string(nil), s.events...)
	n.shared = s.shared
	n.locks = make(map[string]*MutexModel, len(s.locks))
	for k, v := range s.locks {
		c := *v
		n.locks[k] = &c
	}
	n.decided = make(map[string]bool, len(s.decided))
	for k, v := range s.decided {
		n.decided[k] = v
	}
	n.wgs = make(map[string]int, len(s.wgs))
	for k, v := range s.wgs {
		n.wgs[k] = v
	}
	n.trace = append([]string(nil), s.trace...)
	return n
}

func (s *State) g() *G { return s.gs[s.cur] }

func (s *State) alloc(v Value) Ptr {
	s.next++
	s.heap[s.next] = &Obj{v}
	return Ptr{obj: s.next}
}

func getPath(v Value, path []int) Value {
	for _, i := range path {
		v = v.(StructV)[i]
	}
	return v
}
func setPath(v Value, path []int, nv Value) Value {
	if len(path) == 0 {
		return nv
	}
	s := v.(StructV)
	c := make(StructV, len(s))
	copy(c, s)
	c[path[0]] = setPath(s[path[0]], path[1:], nv)
	return c
}

func (s *State) load(p Ptr) Value     { return getPath(s.heap[p.obj].v, p.path) }
func (s *State) store(p Ptr, v Value) { o := s.heap[p.obj]; o.v = setPath(o.v, p.path, v) }

func ptrEq(a, b Ptr) bool {
	return a.obj == b.obj && fmt.Sprint(a.path) == fmt.Sprint(b.path)
}

func width(t types.Type) (int, bool) {
	switch b := t.Underlying().(type) {
	case *types.Basic:
		switch b.Kind() {
		case types.Bool, types.UntypedBool:
			return 0, false
		case types.Int8:
			return 8, true
		case types.Uint8:
			return 8, false
		case types.Int16:
			return 16, true
		case types.Uint16:
			return 16, false
		case types.Int32, types.UntypedRune:
			return 32, true
		case types.Uint32:
			return 32, false
		case types.Int64, types.Int, types.UntypedInt:
			return 64, true
		case types.Uint64, types.Uint, types.Uintptr:
			return 64, false
		}
	}
	return -1, false
}
